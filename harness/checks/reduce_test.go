package checks

import (
	"fmt"
	"os"
	"os/exec"
	"path/filepath"
	"regexp"
	"strings"
	"testing"
	"time"

	"github.com/awslabs/ar-go-tools/verifharness/core"
	"github.com/awslabs/ar-go-tools/verifharness/gogen"
)

// TestReduce minimises the main.go of a replay directory (VERIF_REPLAY) by deleting line ranges and unwrapping
// blocks while the directory's replayer still reports the same class of failure. Triage tool, not a check.
func TestReduce(t *testing.T) {
	dir := os.Getenv("VERIF_REDUCE")
	if dir == "" {
		t.Skip("no VERIF_REDUCE")
	}
	kind := readKind(dir)
	rf := replayers[kind]
	if rf == nil {
		t.Fatalf("no replayer for %q", kind)
	}
	work, _ := os.MkdirTemp(env.Out, "reduce")
	defer os.RemoveAll(work)
	_ = exec.Command("cp", "-r", dir+"/.", work).Run()
	class := func(res string) string {
		switch {
		case res == "":
			return ""
		case strings.Contains(res, "HARNESS"):
			return ""
		case strings.Contains(res, "panicked"):
			return "panic:" + panicSite(strings.ReplaceAll(res, " | ", "\n"))
		default:
			w := strings.Fields(res)
			if len(w) > 3 {
				w = w[:3]
			}
			return strings.Join(w, " ")
		}
	}
	orig, _ := os.ReadFile(filepath.Join(work, "main.go"))
	want := class(rf(work))
	if want == "" {
		t.Fatalf("replay does not fail")
	}
	t.Logf("reducing for class %q", want)
	lines := strings.Split(strings.TrimRight(string(orig), "\n"), "\n")
	startAt := 0
	for i, l := range lines {
		if strings.HasPrefix(l, "var GPP") {
			startAt = i + 1
		}
	}
	attempts, accepted := 0, 0
	deadline := time.Now().Add(25 * time.Minute)
	try := func(cand []string) bool {
		if time.Now().After(deadline) {
			return false
		}
		src := renumber(strings.Join(cand, "\n") + "\n")
		if _, err := core.LoadSource(map[string]string{"main.go": src, "prelude.go": gogen.AnalysedPrelude}); err != nil {
			return false
		}
		attempts++
		_ = os.WriteFile(filepath.Join(work, "main.go"), []byte(src), 0o644)
		if class(rf(work)) == want {
			accepted++
			return true
		}
		return false
	}
	changed := true
	for changed {
		changed = false
		// delete ranges
		for size := len(lines) - startAt; size >= 1; size = size * 2 / 3 {
			for i := startAt; i+size <= len(lines); i++ {
				cand := append(append([]string{}, lines[:i]...), lines[i+size:]...)
				if try(cand) {
					lines = cand
					changed = true
					i--
				}
			}
			if size == 1 {
				break
			}
		}
		// unwrap blocks: remove an opening line and its matching closing line
		for i := startAt; i < len(lines); i++ {
			l := lines[i]
			if !strings.HasSuffix(strings.TrimSpace(l), "{") || strings.HasPrefix(l, "func ") {
				continue
			}
			ind := len(l) - len(strings.TrimLeft(l, "\t"))
			for j := i + 1; j < len(lines); j++ {
				lj := lines[j]
				if len(lj)-len(strings.TrimLeft(lj, "\t")) == ind && strings.HasPrefix(strings.TrimSpace(lj), "}") {
					if strings.TrimSpace(lj) == "}" || strings.TrimSpace(lj) == "}()" {
						cand := append(append(append([]string{}, lines[:i]...), lines[i+1:j]...), lines[j+1:]...)
						if try(cand) {
							lines = cand
							changed = true
						}
					}
					break
				}
			}
		}
	}
	final := renumber(strings.Join(lines, "\n") + "\n")
	_ = os.WriteFile(filepath.Join(dir, "main.go"), []byte(final), 0o644)
	_ = os.WriteFile(filepath.Join(dir, "main.go.orig"), orig, 0o644)
	if _, err := os.Stat(filepath.Join(dir, "native")); err == nil {
		_ = os.WriteFile(filepath.Join(dir, "native", "main.go"), []byte(final), 0o644)
	}
	fmt.Printf("reduced %d -> %d lines (%d attempts, %d accepted)\n", len(strings.Split(string(orig), "\n")), len(lines), attempts, accepted)
	fmt.Println(afterDecls(final))
	fmt.Println("RESULT:", rf(dir))
}

var lineArgRe = regexp.MustCompile(`\b(source[0-9]|sink[0-9])\((\d+)`)

// renumber rewrites the line literals passed to source*/sink* calls to the lines they are on now.
func renumber(src string) string {
	ls := strings.Split(src, "\n")
	for i, l := range ls {
		if strings.HasPrefix(l, "func ") {
			continue
		}
		ls[i] = lineArgRe.ReplaceAllString(l, fmt.Sprintf("${1}(%d", i+1))
	}
	return strings.Join(ls, "\n")
}

// slow-taint: the stored program makes the taint analysis (config in opts.txt: probe flags) exceed a small budget.
func init() {
	replayers["slow-taint"] = func(dir string) string {
		flags, _ := os.ReadFile(filepath.Join(dir, "probe-flags.txt"))
		args := append(strings.Fields(string(flags)), dir)
		budget := "6"
		if b, err := os.ReadFile(filepath.Join(dir, "budget.txt")); err == nil {
			budget = strings.TrimSpace(string(b))
		}
		cmd := exec.Command("timeout", append([]string{"-s", "KILL", budget, filepath.Join(env.Root, ".build", "probe")}, args...)...)
		out, err := cmd.CombinedOutput()
		if err != nil && !strings.Contains(string(out), "pairs:") {
			return "analysis over budget (" + budget + "s) " + oneLine(string(out))
		}
		return ""
	}
}

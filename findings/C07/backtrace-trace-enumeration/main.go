package main

import "unsafe"

type Tree struct {
	Kids []*Tree
	M    map[string]*Tree
	Up   *Tree
	V    string
}

type Rec func(Rec, string) string

type Stack[T any] struct{ items []T }

func (s *Stack[T]) Push(x T) { s.items = append(s.items, x) }
func (s *Stack[T]) Pop() T {
	var zero T
	if len(s.items) == 0 {
		return zero
	}
	x := s.items[len(s.items)-1]
	s.items = s.items[:len(s.items)-1]
	return x
}

func ext(x string) string

func even(n int, s string) string {
	if n <= 0 {
		return s
	}
	return odd(n-1, s+"e")
}

func odd(n int, s string) string {
	if n <= 0 {
		return s
	}
	return even(n-1, s+"o")
}

func walk(t *Tree, acc string) string {
	if t == nil {
		return acc
	}
	for _, k := range t.Kids {
		acc = walk(k, acc+t.V)
	}
	for _, k := range t.M {
		acc = walk(k, acc)
	}
	return walk(t.Up, acc)
}

func selfapp(r Rec, s string) string {
	if r == nil {
		return s
	}
	return r(r, s)
}

func bytesOf(s string) []byte { return unsafe.Slice(unsafe.StringData(s), len(s)) }

type S struct {
	A string
	B string
	P *string
	L []string
	M map[string]string
	N *S
	F func(string) string
	X any
	I Box
}

type E struct {
	S
	Z string
}

type Name string

type Box interface {
	Get() string
	Put(s string)
}

type BoxA struct{ v string }

func (b *BoxA) Get() string  { return b.v }
func (b *BoxA) Put(s string) { b.v = s }

type BoxB struct{ l []string }

func (b *BoxB) Get() string {
	if len(b.l) > 0 {
		return b.l[len(b.l)-1]
	}
	return ""
}
func (b *BoxB) Put(s string) { b.l = append(b.l, s) }

type BoxC struct{ p *string }

func (b BoxC) Get() string  { return *b.p }
func (b BoxC) Put(s string) { *b.p = s }

func (s *S) GetA() string   { return s.A }
func (s *S) SetA(x string)  { s.A = x }
func (s S) CopyB() string   { return s.B }
func (s *S) Self() *S       { return s }
func (s *S) Both() (string, string) { return s.A, s.B }

func idf(x string) string   { return x }
func dropf(x string) string { return "dropped" }

func ident[T any](x T) T { return x }

func pair[T any, U any](x T, y U) (U, T) { return y, x }

func vcat(xs ...string) string {
	r := ""
	for _, x := range xs {
		r += x
	}
	return r
}

func newS(a string) *S {
	return &S{A: a, P: new(string), L: make([]string, 2), M: map[string]string{}}
}

var G0 string
var GP = newS("")
var GS = S{P: new(string), L: make([]string, 2), M: map[string]string{}}
var GL = make([]string, 2)
var GM = map[string]string{}
var GA [2]string
var GF func(string) string = idf
var GX any
var GPP = new(string)

func (r *S) M4(p0 [2]string, p1 []byte, p2 Name) (map[string]string, string) {
	GS.A = r.B
	v1, v2 := r.Both(); _, _ = v1, v2
	v3 := r.P; _ = v3
	if validate1(0, v2) {
		v4 := r.Self(); _ = v4
	}
	v5 := *r.P; _ = v5
	var v6 func(string) string = func(x string) string { r.B = x; return r.A }; _ = v6
	return r.M, v2
}

func f3(p0 string, p1 *S, p2 *string) ([]byte) {
	p1.SetA(p0)
	v9, v10 := (p1).M4([2]string{"c7", "c8"}, []byte(p0), Name(p0)); _, _ = v9, v10
	if cond(1) {
		v11 := vcat(p1.L...); _ = v11
	}
	v12 := make(chan *S)
	go func() { v12 <- p1 }()
	select {
	case x := <-v12:
		sink1(166, x)
	case <-make(chan int):
	}
	return []byte(v10)
}

func f2() {
	v13 := func() {
		var v15 any = any("c14"); _ = v15
		v18 := ident([]string{"c16", "c17"}); _ = v18
		v19 := []byte(v18[1]); _ = v19
	}
	v13()
	v22 := f3("c20", newS("c21"), new(string)); _ = v22
	return
}

func f1(p0 *S, p1 *string, p2 any) {
	f2()
	v23 := source1(185); _ = v23
	v24 := make(chan *S)
	go func() { v24 <- p0 }()
	select {
	case x := <-v24:
		sink1(190, x)
	case <-make(chan int):
	}
	v25 := func(x string) string {
		*p1 = v23
		v26 := p0.GetA(); _ = v26
		return v26
	}; _ = v25
	return
}

func f0() (Name, map[string]string) {
	v28 := ident(&S{A: "c27", P: new(string), L: make([]string, 2), M: map[string]string{}}); _ = v28
	v29 := map[string]string{"k": *v28.P}; _ = v29
	v30 := source1(204); _ = v30
	v31 := (*string)(unsafe.Pointer(&v30)); _ = v31
	v32, v33 := (v28).M4([2]string{v30, v30}, []byte(v29["k"]), Name(v30)); _, _ = v32, v33
	f1(v28, v31, any(v33))
	return Name("c34"), v32
}

func main() {
	v36 := newS("c35"); _ = v36
	var v37 func(string) string = func(x string) string { v36.B = x; return v36.A }; _ = v37
	defer func() {
		GM["k"] = v36.B
	}()
	v38, v39 := f0(); _, _ = v38, v39
	v40 := &Stack[string]{}; v41 := &Stack[*S]{}
	v40.Push(string(v38)); v41.Push(v36)
	v42 := v40.Pop(); _ = v42
	v43 := ident(v41.Pop()); _ = v43
	v44 := func() {
		v36.L[1] = v42[0:]
		v45, v46 := (v43).M4([2]string{v42, v42}, []byte(v36.L[0]), v38); _, _ = v45, v46
	}
	defer v44()
	v47 := v43.P; _ = v47
	sink1(228, v42)
	sink1(229, v42)
}

#!/usr/bin/env python3
"""tools/mkrepro.py <property> <dir> <kind> <fs:0|1> <od:0|1> <what> < body.go
Composes a replay directory from a body (functions incl. main) using the generator's fixed declarations; the line
literals of source*/sink* calls are renumbered to the lines they end up on."""
import sys, os, re, json
prop, d, kind, fs, od, what = sys.argv[1:7]
root = os.path.dirname(os.path.dirname(os.path.abspath(__file__)))
hdr = open(os.path.join(root, "tools/header.go.txt")).read()
body = sys.stdin.read()
src = hdr + "\n" + body
lines = src.split("\n")
for i, l in enumerate(lines):
    if l.startswith("func "):
        continue
    lines[i] = re.sub(r"\b(source[0-9]|sink[0-9])\((\d+)", lambda m: "%s(%d" % (m.group(1), i + 1), l)
src = "\n".join(lines)
os.makedirs(d, exist_ok=True)
open(os.path.join(d, "main.go"), "w").write(src)
open(os.path.join(d, "prelude.go"), "w").write(open(os.path.join(root, "tools/prelude.go.txt")).read())
opts = {"FieldSensitive": fs == "1", "OnDemand": od == "1", "PkgFilter": "", "UseEscape": False, "MaxAlarms": 0, "LogLevel": 0,
        "Sanitizers": None, "Validators": None, "ExtraOptions": "", "SpecFiles": None, "SourceMethod": "", "SinkMethod": ""}
if kind == "c02":
    opts["Sanitizers"] = ["^sanitize1$"]
    opts["Validators"] = ["^validate1$", "^validateE$", "^validateT$"]
json.dump({"observed": [], "valuations": [0, 4095], "variant": "fs=%s od=%s" % (fs, od), "opts": opts}, open(os.path.join(d, "expect.json"), "w"), indent=1)
json.dump({"property": prop, "signature": os.path.basename(d), "what": what, "kind": kind}, open(os.path.join(d, "violation.json"), "w"), indent=1)
print("wrote", d)

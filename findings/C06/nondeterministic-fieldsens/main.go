package main

type S struct {
	A string
	B string
	P *string
	L []string
	M map[string]string
	N *S
	F func(string) string
	X any
	I Box
}

type E struct {
	S
	Z string
}

type Name string

type Box interface {
	Get() string
	Put(s string)
	peek() string
}

type BoxA struct{ v string }

func (b *BoxA) Get() string  { return b.v }
func (b *BoxA) Put(s string) { b.v = s }
func (b *BoxA) peek() string { return b.v }

type BoxB struct{ l []string }

func (b *BoxB) Get() string {
	if len(b.l) > 0 {
		return b.l[len(b.l)-1]
	}
	return ""
}
func (b *BoxB) Put(s string) { b.l = append(b.l, s) }
func (b *BoxB) peek() string { return b.Get() }

type BoxC struct{ p *string }

func (b BoxC) Get() string  { return *b.p }
func (b BoxC) Put(s string) { *b.p = s }
func (b BoxC) peek() string { return *b.p }

type BoxD struct {
	f func(string) string
	v string
}

func (b BoxD) Get() string  { return b.f(b.v) }
func (b BoxD) Put(s string) { sinkhole = b.f(s) }
func (b BoxD) peek() string { return b.f(b.v) }

var sinkhole string

func (s *S) GetA() string   { return s.A }
func (s *S) SetA(x string)  { s.A = x }
func (s S) CopyB() string   { return s.B }
func (s *S) Self() *S       { return s }
func (s *S) Both() (string, string) { return s.A, s.B }

func idf(x string) string   { return x }
func dropf(x string) string { return "dropped" }

func ident[T any](x T) T { return x }

func pair[T any, U any](x T, y U) (U, T) { return y, x }

func vcat(xs ...string) string {
	r := ""
	for _, x := range xs {
		r += x
	}
	return r
}

func newS(a string) *S {
	return &S{A: a, P: new(string), L: make([]string, 2), M: map[string]string{}}
}

var G0 string
var GP = newS("")
var GS = S{P: new(string), L: make([]string, 2), M: map[string]string{}}
var GL = make([]string, 2)
var GM = map[string]string{}
var GA [2]string
var GF func(string) string = idf
var GX any
var GPP = new(string)
func f2() (map[string]*S, Name, Box) {
	v1 := source1(97); _ = v1
	v3 := newS(v1); _ = v3
	v7 := "c6"; _ = v7
	return map[string]*S{"k": v3}, Name(v7), &BoxD{f: func(x string) string { v3.B = x; return v3.A }, v: v7}
}
func main() {
	v29 := newS("c28"); _ = v29
	v30 := v29.A; _ = v30
	L2:
	for v31 := 0; v31 < bound(3); v31++ {
		v32, v33, v34 := f2(); _, _, _ = v32, v33, v34
			continue L2
	}
	v38 := func() {
		v29.P = &v29.A
	}
	v38()
	sink2(114, v30)
}

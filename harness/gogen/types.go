// Package gogen generates well-typed Go programs from rapid draws. The generated main.go is identical for the
// analysed and the native rendering; only prelude.go (the oracle functions source*/sink*/cond/...) differs.
package gogen

import (
	"fmt"
	"sort"
	"strings"

	"pgregory.net/rapid"
)

// Type is one of a small closed set of Go types the generator knows how to build and take apart.
type Type string

const (
	TStr   Type = "string"
	TPStr  Type = "*string"
	TSlice Type = "[]string"
	TMap   Type = "map[string]string"
	TS     Type = "S"
	TPS    Type = "*S"
	TBytes Type = "[]byte"
	TAny   Type = "any"
	TBox   Type = "Box"
	TFunc  Type = "func(string) string"
	TArr   Type = "[2]string"
	TName  Type = "Name"
	TChan  Type = "chan string"
	TLPS   Type = "[]*S"
	TMPS   Type = "map[string]*S"
	TE     Type = "E"
)

var valueTypes = []Type{TStr, TStr, TStr, TPStr, TSlice, TMap, TS, TPS, TPS, TBytes, TAny, TBox, TFunc, TArr, TName, TLPS, TMPS, TE}

// Decls is the fixed type section of every generated program.
const Decls = `type S struct {
	A string
	B string
	P *string
	L []string
	M map[string]string
	N *S
	F func(string) string
	X any
	I Box
}

type E struct {
	S
	Z string
}

type Name string

type Box interface {
	Get() string
	Put(s string)
	peek() string
}

type BoxA struct{ v string }

func (b *BoxA) Get() string  { return b.v }
func (b *BoxA) Put(s string) { b.v = s }
func (b *BoxA) peek() string { return b.v }

type BoxB struct{ l []string }

func (b *BoxB) Get() string {
	if len(b.l) > 0 {
		return b.l[len(b.l)-1]
	}
	return ""
}
func (b *BoxB) Put(s string) { b.l = append(b.l, s) }
func (b *BoxB) peek() string { return b.Get() }

type BoxC struct{ p *string }

func (b BoxC) Get() string  { return *b.p }
func (b BoxC) Put(s string) { *b.p = s }
func (b BoxC) peek() string { return *b.p }

type BoxD struct {
	f func(string) string
	v string
}

func (b BoxD) Get() string  { return b.f(b.v) }
func (b BoxD) Put(s string) { sinkhole = b.f(s) }
func (b BoxD) peek() string { return b.f(b.v) }

var sinkhole string

func (s *S) GetA() string   { return s.A }
func (s *S) SetA(x string)  { s.A = x }
func (s S) CopyB() string   { return s.B }
func (s *S) Self() *S       { return s }
func (s *S) Both() (string, string) { return s.A, s.B }

func idf(x string) string   { return x }
func dropf(x string) string { return "dropped" }

func ident[T any](x T) T { return x }

func pair[T any, U any](x T, y U) (U, T) { return y, x }

func vcat(xs ...string) string {
	r := ""
	for _, x := range xs {
		r += x
	}
	return r
}

func newS(a string) *S {
	return &S{A: a, P: new(string), L: make([]string, 2), M: map[string]string{}}
}
`

type variable struct {
	name   string
	typ    Type
	addr   bool // addressable (a variable, not a range copy etc.)
	const_ bool
}

// Fn is a generated helper function.
type Fn struct {
	Name    string
	Params  []Type
	Results []Type
	Recv    Type // "" or TPS (method on *S) or TS
	Rec     bool // self-recursive with depth parameter d (first parameter)
}

// Program is a generated program.
type Program struct {
	Main       string         // main.go
	Sources    map[int]string // line -> source function
	Sinks      map[int]string // line -> sink function
	SrcFunc    map[int]string // line -> enclosing function
	SinkFunc   map[int]string
	Direct     map[[2]int]bool // (source line, sink line) pairs where the sunk variable directly received the source result
	Feats      map[string]bool
	NBits      int
	Sanitizers []string
	Validators []string
	Excluded   int // draws diverted because a feature is switched off by a known finding
}

// FeatList returns the sorted feature labels.
func (p *Program) FeatList() []string {
	var l []string
	for f := range p.Feats {
		l = append(l, f)
	}
	sort.Strings(l)
	return l
}

// Profile selects statement kinds and sizes.
type Profile struct {
	Name       string
	Weights    map[string]int
	MaxHelpers int
	MainStmts  [2]int
	FnStmts    [2]int
	MaxDepth   int             // nesting of blocks
	Off        map[string]bool // features switched off (known findings, or outside the property's domain)
	Sanitize   bool            // generate sanitizer / validator calls (C02)
	Enter      bool            // instrument function entries with enter(id) (C12/C18)
	Go         bool            // C13/C14: goroutines sharing memory (closures, arguments, globals, channels)
	Probes     bool            // C11: probe statements on pointer-like values
	Wild       bool            // C07: goroutines, recover, unsafe, recursive types, bodyless functions...
}

type gen struct {
	t            *rapid.T
	p            *Profile
	lines        []string
	indent       int
	nvar         int
	scope        []variable
	fns          []*Fn
	curFn        int // index of the function being generated (may call fns with larger index); -1 for main
	curName      string
	nbits        int
	depth        int
	prog         *Program
	inDefer      bool
	inLoop       int
	results      []Type         // results of the function being generated
	directSrc    map[string]int // variable -> source line it directly received
	nlabel       int
	closureDepth int
	nenter       int
	nprobe       int
}

func (g *gen) emit(format string, a ...any) int {
	s := fmt.Sprintf(format, a...)
	g.lines = append(g.lines, strings.Repeat("\t", g.indent)+s)
	return len(g.lines)
}

// nextLine is the number the next emitted line will get.
func (g *gen) nextLine() int { return len(g.lines) + 1 }

func (g *gen) feat(f string) { g.prog.Feats[f] = true }

func (g *gen) off(f string) bool {
	if g.p.Off[f] {
		g.prog.Excluded++
		return true
	}
	return false
}

func (g *gen) fresh() string {
	g.nvar++
	return fmt.Sprintf("v%d", g.nvar)
}

var idxSlices [][]int

func init() {
	for n := 0; n <= 128; n++ {
		s := make([]int, n)
		for i := range s {
			s[i] = i
		}
		idxSlices = append(idxSlices, s)
	}
}

// Uniform draws an integer in [0,n) uniformly. rapid's integer generators are deliberately biased towards small
// values and bounds, which distorts statement weights; the first element of a rapid permutation is uniform.
func Uniform(t *rapid.T, n int, label string) int {
	if n <= 1 {
		return 0
	}
	if n <= 16 {
		return rapid.Permutation(idxSlices[n]).Draw(t, label)[0]
	}
	// two-level: uniform bucket, then uniform inside the bucket (exact when n is a multiple of 16, else rejection-free
	// approximation by drawing over the padded range and folding)
	hi := (n + 15) / 16
	for k := 0; k < 4; k++ {
		v := rapid.Permutation(idxSlices[hi]).Draw(t, label)[0]*16 + rapid.Permutation(idxSlices[16]).Draw(t, label)[0]
		if v < n {
			return v
		}
	}
	return rapid.Permutation(idxSlices[16]).Draw(t, label)[0] % n
}

func (g *gen) intn(n int, label string) int {
	return Uniform(g.t, n, label)
}

func (g *gen) chance(pct int, label string) bool {
	return Uniform(g.t, 100, label) < pct
}

func (g *gen) bit() int {
	b := g.nbits % 12
	g.nbits++
	return b
}

// structValueTypes are the types whose values embed references and are copied by value.
func (g *gen) typeOff(t Type) bool {
	return (t == TS || t == TE) && g.p.Off["struct-value-copy"]
}

func (g *gen) varsOf(t Type) []variable {
	var r []variable
	for _, v := range g.scope {
		if v.typ == t {
			r = append(r, v)
		}
	}
	return r
}

func (g *gen) pickVar(t Type, label string) (variable, bool) {
	vs := g.varsOf(t)
	if len(vs) == 0 {
		return variable{}, false
	}
	// prefer recent variables: two draws, take the later one
	i := g.intn(len(vs), label)
	j := g.intn(len(vs), label+"2")
	if j > i {
		i = j
	}
	return vs[i], true
}

func (g *gen) declare(name string, t Type) {
	g.scope = append(g.scope, variable{name: name, typ: t, addr: true})
}

func (g *gen) weighted(label string, kinds []string) string {
	total := 0
	for _, k := range kinds {
		total += g.p.Weights[k]
	}
	if total == 0 {
		return ""
	}
	x := Uniform(g.t, total, label)
	for _, k := range kinds {
		x -= g.p.Weights[k]
		if x < 0 {
			return k
		}
	}
	return kinds[len(kinds)-1]
}

// enterCall returns "enter(N); " with a fresh id when the profile instruments function entries, "" otherwise.
func (g *gen) enterCall() string {
	if !g.p.Enter {
		return ""
	}
	g.nenter++
	return fmt.Sprintf("enter(%d); ", 2000+g.nenter)
}

// DeclsWithEnter is Decls with an enter(id) call (ids 900...) at the start of every function body.
func DeclsWithEnter() string {
	var out []string
	id := 900
	for _, l := range strings.Split(Decls, "\n") {
		if strings.HasPrefix(l, "func ") {
			if strings.HasSuffix(l, "{") {
				id++
				out = append(out, l, fmt.Sprintf("\tenter(%d)", id))
				continue
			}
			if i := strings.Index(l, "{ "); i >= 0 && strings.HasSuffix(l, "}") {
				id++
				l = l[:i] + fmt.Sprintf("{ enter(%d); ", id) + l[i+2:]
			}
		}
		out = append(out, l)
	}
	return strings.Join(out, "\n")
}

package main

type S struct {
	A string
	B string
	P *string
	L []string
	M map[string]string
	N *S
	F func(string) string
	X any
	I Box
}

type E struct {
	S
	Z string
}

type Name string

type Box interface {
	Get() string
	Put(s string)
}

type BoxA struct{ v string }

func (b *BoxA) Get() string  { return b.v }
func (b *BoxA) Put(s string) { b.v = s }

type BoxB struct{ l []string }

func (b *BoxB) Get() string {
	if len(b.l) > 0 {
		return b.l[len(b.l)-1]
	}
	return ""
}
func (b *BoxB) Put(s string) { b.l = append(b.l, s) }

type BoxC struct{ p *string }

func (b BoxC) Get() string  { return *b.p }
func (b BoxC) Put(s string) { *b.p = s }

func (s *S) GetA() string   { return s.A }
func (s *S) SetA(x string)  { s.A = x }
func (s S) CopyB() string   { return s.B }
func (s *S) Self() *S       { return s }
func (s *S) Both() (string, string) { return s.A, s.B }

func idf(x string) string   { return x }
func dropf(x string) string { return "dropped" }

func ident[T any](x T) T { return x }

func pair[T any, U any](x T, y U) (U, T) { return y, x }

func vcat(xs ...string) string {
	r := ""
	for _, x := range xs {
		r += x
	}
	return r
}

func newS(a string) *S {
	return &S{A: a, P: new(string), L: make([]string, 2), M: map[string]string{}}
}

var G0 string
var GP = newS("")
var GS = S{P: new(string), L: make([]string, 2), M: map[string]string{}}
var GL = make([]string, 2)
var GM = map[string]string{}
var GA [2]string
var GF func(string) string = idf
var GX any
var GPP = new(string)
func f1(p0 [2]string) ([]string, []string) {
	v7 := source1(82); _ = v7
	v11 := "c10"; _ = v11
	return []string{v11, v11}, []string{v7[0:], v11}
}
func main() {
	v19 := newS("c18"); _ = v19
	v20 := func(x string) string {
		return min(x, x, x)
	}; _ = v20
	_, v24 := f1([2]string{v19.B, v19.A}); _, _ = 0, v24
	var v25 Box = &BoxA{v: *v19.P}; _ = v25
	v28 := v25.Get(); _ = v28
	sink4(94, v24, v28, v28)
}

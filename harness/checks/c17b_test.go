package checks

import (
	"fmt"

	df "github.com/awslabs/ar-go-tools/analysis/dataflow"
	"golang.org/x/tools/go/ssa"
)

// checkClosures: I3.
func checkClosures(fg *df.InterProceduralFlowGraph, st *graphStats) string {
	for fn, g := range fg.Summaries {
		if g == nil {
			continue
		}
		for instr, k := range g.CreatedClosures {
			mk := k.Instr()
			if ssa.Instruction(mk) != instr {
				return fmt.Sprintf("I3: closure node registered under %v has instruction %v", instr, mk)
			}
			cfn, ok := mk.Fn.(*ssa.Function)
			if !ok {
				continue
			}
			if s, ok := fg.Summaries[cfn]; ok && s != nil {
				if k.ClosureSummary != s {
					return fmt.Sprintf("I3: closure created in %v: a summary of %v exists in the graph but the closure node is linked to %s", fn, cfn, parentOf(k.ClosureSummary))
				}
				if s.ReferringMakeClosures[mk] != k {
					return fmt.Sprintf("I3: closure created in %v is linked to the summary of %v, which does not list it among its referring closures", fn, cfn)
				}
				st.closureLinks++
			} else if k.ClosureSummary != nil {
				return fmt.Sprintf("I3: closure node in %v is linked to a summary of %v that is not part of the graph", fn, cfn)
			}
		}
		for instr, k := range g.ReferringMakeClosures {
			if k == nil {
				continue
			}
			if k.ClosureSummary != g {
				return fmt.Sprintf("I3: summary of %v lists referring closure %v whose node is linked to %s", fn, instr, parentOf(k.ClosureSummary))
			}
		}
	}
	return ""
}

// checkGlobals: I4.
func checkGlobals(state *df.AnalyzerState, st *graphStats) string {
	fg := state.FlowGraph
	inGraph := func(n df.GraphNode) (*df.AccessGlobalNode, bool) {
		a, ok := n.(*df.AccessGlobalNode)
		if !ok {
			return nil, false
		}
		g := a.Graph()
		if g == nil || fg.Summaries[g.Parent] != g {
			return a, false
		}
		// it must be registered among the access nodes of its summary
		for _, grp := range g.AccessGlobalNodes {
			for _, x := range grp {
				if x == a {
					return a, true
				}
			}
		}
		return a, false
	}
	for gv, G := range state.Globals {
		for n := range G.WriteLocations {
			a, ok := inGraph(n)
			if a == nil || !ok {
				return fmt.Sprintf("I4: write location %s of global %v is not an access node of a summary of the graph", nodeDesc(n), gv)
			}
			if a.Global != G || !a.IsWrite {
				return fmt.Sprintf("I4: write location %s of global %v is an access node with IsWrite=%v of global %v", nodeDesc(n), gv, a.IsWrite, a.Global)
			}
		}
		for n := range G.ReadLocations {
			a, ok := inGraph(n)
			if a == nil || !ok {
				return fmt.Sprintf("I4: read location %s of global %v is not an access node of a summary of the graph", nodeDesc(n), gv)
			}
			if a.Global != G || a.IsWrite {
				return fmt.Sprintf("I4: read location %s of global %v is an access node with IsWrite=%v of global %v", nodeDesc(n), gv, a.IsWrite, a.Global)
			}
		}
		if len(G.WriteLocations) > 0 && len(G.ReadLocations) > 0 {
			st.globalsRW++
		}
	}
	for fn, g := range fg.Summaries {
		if g == nil || !g.Constructed {
			continue
		}
		for _, grp := range g.AccessGlobalNodes {
			for _, a := range grp {
				if a.Global == nil {
					return fmt.Sprintf("I4: access node %s in %v has no global", nodeDesc(a), fn)
				}
				if a.IsWrite {
					if !a.Global.WriteLocations[a] {
						return fmt.Sprintf("I4: write access %s in constructed summary of %v is missing from the global's write locations", nodeDesc(a), fn)
					}
				} else if len(a.Out()) > 0 {
					if !a.Global.ReadLocations[a] {
						return fmt.Sprintf("I4: read access %s (with outgoing flow) in constructed summary of %v is missing from the global's read locations", nodeDesc(a), fn)
					}
				}
			}
		}
	}
	return ""
}

package main

import (
	"bufio"
	"bytes"
	"encoding/base64"
	"encoding/hex"
	"encoding/json"
	"io"
	"strings"
)

func main() {
	{
		X := source1(15)
		R, _ := json.Marshal(map[string]string{"k": X})
		sink1(17, R)
	}
	{
		X := source1(20)
		var R string
		_ = json.Unmarshal([]byte("\"" + X + "\""), &R)
		sink1(23, R)
	}
	{
		X := source1(26)
		var R string
		_ = json.NewDecoder(strings.NewReader("\"" + X + "\"")).Decode(&R)
		sink1(29, R)
	}
	{
		X := source1(32)
		var R bytes.Buffer
		_ = json.NewEncoder(&R).Encode(X)
		sink1(35, R)
	}
	{
		X := source1(38)
		e4 := base64.StdEncoding.EncodeToString([]byte(X))
		R, _ := base64.StdEncoding.DecodeString(e4)
		sink1(41, R)
	}
	{
		X := source1(44)
		e5 := hex.EncodeToString([]byte(X))
		R, _ := hex.DecodeString(e5)
		sink1(47, R)
	}
	{
		X := source1(50)
		R, _ := bufio.NewReader(strings.NewReader(X + "\n")).ReadString('\n')
		sink1(52, R)
	}
	{
		X := source1(55)
		sc := bufio.NewScanner(strings.NewReader(X))
		sc.Scan()
		R := sc.Text()
		sink1(59, R)
	}
	{
		X := source1(62)
		var b6 bytes.Buffer
		w6 := bufio.NewWriter(&b6)
		w6.WriteString(X)
		w6.Flush()
		R := b6.String()
		sink1(68, R)
	}
	{
		X := source1(71)
		var b7 bytes.Buffer
		io.Copy(&b7, strings.NewReader(X))
		R := b7.String()
		sink1(75, R)
	}
}

package alpha

type T struct{ V string }

func Get() string        { return "g" }
func GetData() string    { return "gd" }
func Fetch() string      { return "f" }
func Put(s string)       {}
func PutData(s string)   {}
func Store(s string)     {}

func (t T) Get() string       { return t.V }
func (t *T) GetData() string  { return t.V }
func (t T) Put(s string)      {}
func (t *T) PutData(s string) { t.V = s }

type I interface {
	Get() string
	Put(s string)
}

type U struct{ V string }

func (u U) Get() string  { return u.V }
func (u U) Put(s string) {}

type W struct{ V string }

func (w *W) Get() string  { return w.V }
func (w *W) Put(s string) { w.V = s }

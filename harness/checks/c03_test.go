package checks

import (
	"encoding/json"
	"fmt"
	"os"
	"path/filepath"
	"sort"
	"strings"
	"testing"
	"time"

	"github.com/awslabs/ar-go-tools/verifharness/core"
	"github.com/awslabs/ar-go-tools/verifharness/gogen"
	"github.com/awslabs/ar-go-tools/verifharness/native"
	"pgregory.net/rapid"
)

// C03: backtrace reports every backward data flow from a backtrace point. The sink* functions are the backtrace
// points; every source* call is an origin (unique marker per call site). Completeness: a marker of origin line L found
// natively in argument a of the backtrace-point call on line M => some trace of that argument has a node on line L.
// Validity: every trace ends at its entry argument and is a connected sequence of dataflow steps.

type c03Checker struct {
	rec      *core.Recorder
	links    map[string]int
	unl      map[string]int
	ncollect int
}

func c03Analyse(files map[string]string, onDemand bool) (*core.BtOutcome, error) {
	l, err := core.LoadSource(files)
	if err != nil {
		return nil, err
	}
	// budgeted: a run over budget keeps running in the background and the case is counted as inconclusive
	ch := make(chan *core.BtOutcome, 1)
	go func() { ch <- core.RunBacktrace(core.MustConfig(core.BacktraceYAML(onDemand)), l) }()
	select {
	case o := <-ch:
		return o, nil
	case <-time.After(analysisBudget() / 3):
		return &core.BtOutcome{Err: fmt.Errorf("over budget")}, nil
	}
}

// sinkArgIndex maps the native data-argument index to the SSA argument index of the sink call (argument 0 is the
// line literal; the variadic sink4 packs all data arguments into argument 1).
func sinkArgIndex(sinkFn string, ai int) int {
	if sinkFn == "sink4" {
		return 1
	}
	return ai + 1
}

func c03Missing(prog *gogen.Program, res *native.Result, out *core.BtOutcome) []string {
	lines := map[[2]int]map[int]bool{} // (sink line, ssa arg) -> lines on traces
	for _, e := range out.Entries {
		k := [2]int{e.SinkLine, e.ArgIndex}
		if lines[k] == nil {
			lines[k] = map[int]bool{}
		}
		for l := range e.Lines {
			lines[k][l] = true
		}
	}
	seen := map[string]bool{}
	var missing []string
	deepOff := excluded()["deep-reachability"] && !replaying
	for _, r := range res.Runs {
		hops := map[[2]int]int{}
		for _, h := range r.Hops {
			hops[[2]int{h[0], h[1]}] = h[2]
		}
		for _, f := range r.Flows {
			if deepOff && hops[[2]int{f[0], f[1]}] >= 2 {
				continue
			}
			fn := prog.Sinks[f[1]]
			if fn == "" {
				fn = sinkFnOnLine(prog.Main, f[1])
			}
			k := [2]int{f[1], sinkArgIndex(fn, f[2])}
			if !lines[k][f[0]] {
				m := fmt.Sprintf("origin line %d -> argument %d of the call on line %d", f[0], k[1], f[1])
				if !seen[m] {
					seen[m] = true
					missing = append(missing, m)
				}
			}
		}
	}
	sort.Strings(missing)
	return missing
}

func sinkFnOnLine(src string, line int) string {
	ls := strings.Split(src, "\n")
	if line-1 < len(ls) {
		for _, fn := range []string{"sink1", "sink2", "sink3", "sink4"} {
			if strings.Contains(ls[line-1], fn+"(") {
				return fn
			}
		}
	}
	return "sink1"
}

func (cc *c03Checker) judge(t *rapid.T, c *flowCase, res *native.Result) {
	obs := observedFlows(res, false)
	cc.rec.Case(c.Key, nontrivialFlow(c.Prog, obs), c.Prog.FeatList(), func() any {
		return map[string]any{"program_from_first_function": core.Truncate(afterDecls(c.Prog.Main), 50), "observed_origin_to_entry": pairKeys(obs)}
	})
	cc.rec.Count("excluded_by_known_finding", c.Prog.Excluded)
	for _, od := range []bool{false, true} {
		mode := "eager"
		if od {
			mode = "ondemand"
		}
		out, err := c03Analyse(c.files(), od)
		if err != nil {
			t.Fatalf("HARNESS: %v", err)
		}
		report := func(sig, what string) {
			files := c.files()
			files["native/main.go"] = c.Prog.Main
			b, _ := json.MarshalIndent(map[string]any{"valuations": c.Vals, "ondemand": od}, "", " ")
			files["expect.json"] = string(b)
			msg := env.Report(core.Violation{ID: "C03", Signature: sig, What: what, Files: files, Kind: "c03"})
			t.Fatalf("%s", msg)
		}
		if out.Panic != "" {
			report("panic-"+panicSite(out.Panic), "backtrace ("+mode+") panicked: "+oneLine(out.Panic))
		}
		if out.Err != nil {
			cc.rec.Count("analysis_failed_loudly", 1)
			continue
		}
		for k, v := range out.Links {
			cc.links[k] += v
		}
		for k, v := range out.Unlinked {
			cc.unl[k] += v
		}
		if out.Invalid != "" && os.Getenv("VERIF_C03_CALIBRATE") == "" {
			report("invalid-trace-"+mode, "invalid trace ("+mode+"): "+out.Invalid)
		}
		if missing := c03Missing(c.Prog, res, out); len(missing) > 0 {
			if cd := os.Getenv("VERIF_COLLECT"); cd != "" {
				cc.ncollect++
				d := filepath.Join(cd, fmt.Sprintf("C03-%d-%d", env.Shard, cc.ncollect))
				files := c.files()
				b, _ := json.MarshalIndent(map[string]any{"valuations": c.Vals, "ondemand": od}, "", " ")
				files["expect.json"] = string(b)
				files["violation.json"] = `{"property":"C03","kind":"c03","signature":"collected","what":"collected"}`
				files["what.txt"] = mode + ": " + strings.Join(missing, "; ") + "\n"
				_ = core.WriteFiles(d, files)
				continue
			}
			report("missed-"+mode+"-"+featureSignature(c.Prog), fmt.Sprintf("derivations observed natively have no trace (%s): %s", mode, strings.Join(missing, "; ")))
		}
	}
}

func TestC03(t *testing.T) {
	rec := core.NewRecorder("C03", env, "cases = flow-profile programs whose sink* calls are backtrace points and whose source* calls are the "+
		"origins (unique marker per call site), executed natively under several valuations; analysed eagerly and on demand; oracle: "+
		"(a) every origin whose marker was found in an argument of a backtrace-point call is on a trace of that argument, (b) every trace "+
		"ends at its entry argument and consecutive nodes are connected by a dataflow step; non-trivial = an observed derivation that "+
		"crosses a function boundary or goes through memory; distinct = hash(program, valuations)")
	defer rec.Flush()
	replayKnown(t, "C03")
	off := excluded()
	cc := &c03Checker{rec: rec, links: map[string]int{}, unl: map[string]int{}}
	nv := 6
	if env.Thorough() {
		nv = 20
	}
	tp := &twoPass{id: "C03", salt: 3, checks: env.Pick(500, 5000), rec: rec,
		gen:   func(t *rapid.T) *flowCase { return genFlowCase(t, gogen.FlowProfile(off), nv) },
		judge: cc.judge, opt: native.Options{InProcess: true}}
	tp.run(t)
	rec.Note("trace_link_kinds_connected", cc.links)
	rec.Note("trace_link_kinds_not_connected", cc.unl)
	if os.Getenv("VERIF_C03_CALIBRATE") != "" {
		fmt.Printf("VERIF-INFO: unlinked %v\n", cc.unl)
	}
}

func init() {
	replayers["c03"] = func(dir string) string {
		replaying = true
		defer func() { replaying = false }()
		main, err := os.ReadFile(filepath.Join(dir, "main.go"))
		if err != nil {
			return "HARNESS cannot read main.go"
		}
		var exp struct {
			Valuations []uint64 `json:"valuations"`
			OnDemand   bool     `json:"ondemand"`
		}
		b, _ := os.ReadFile(filepath.Join(dir, "expect.json"))
		_ = json.Unmarshal(b, &exp)
		prog := &gogen.Program{Main: string(main), Sinks: map[int]string{}}
		c := &flowCase{Prog: prog, Vals: exp.Valuations, Key: core.Hash(string(main))}
		sdir, _ := os.MkdirTemp(env.Out, "replay-native")
		m, err := native.RunBatch(sdir, []native.Unit{c.unit()}, native.Options{Workers: 4})
		if err != nil || m[c.Key] == nil || m[c.Key].BuildErr != "" {
			return fmt.Sprintf("HARNESS native replay failed: %v", err)
		}
		for rep := 0; rep < 6; rep++ {
			out, err := c03Analyse(c.files(), exp.OnDemand)
			if err != nil {
				return "HARNESS load: " + err.Error()
			}
			if out.Panic != "" {
				return "backtrace panicked: " + oneLine(out.Panic)
			}
			if out.Err != nil {
				continue
			}
			if out.Invalid != "" {
				return "invalid trace: " + out.Invalid
			}
			if missing := c03Missing(prog, m[c.Key], out); len(missing) > 0 {
				return "derivations observed natively have no trace: " + strings.Join(missing, "; ")
			}
		}
		return ""
	}
}

package checks

import (
	"encoding/json"
	"fmt"
	"os"
	"path/filepath"
	"sort"
	"strings"
	"testing"

	"github.com/awslabs/ar-go-tools/analysis/config"
	"github.com/awslabs/ar-go-tools/verifharness/core"
	"pgregory.net/rapid"
)

// C10: user dataflow specifications are applied exactly as written.
//
// A case is: a signature (0..3 parameters, 0..2 results), a call form, a body whose flows are drawn independently of
// the specification, and one or two 0/1 matrices (function form, interface form). Expected flows come from the
// matrices alone (reference model); they are compared with the flows the taint analysis reports.

var c10ParamTypes = []string{"string", "*S", "[]string", "map[string]string", "any"}
var c10ResTypes = []string{"string", "*S", "[]string"}

func c10PointerLike(t string) bool { return t != "string" }

type c10Case struct {
	Params   []string `json:"params"`
	Results  []string `json:"results"`
	Form     string   `json:"form"` // direct | method | iface | funcval | defer
	Spec     string   `json:"spec"` // func | iface | both
	FArgs    [][]int  `json:"fargs"`
	FRets    [][]int  `json:"frets"`
	IArgs    [][]int  `json:"iargs"`
	IRets    [][]int  `json:"irets"`
	BodyRets [][]int  `json:"body_rets"` // BodyRets[i] = results fed by param i in the body
	BodyArgs [][]int  `json:"body_args"`
	TwoRet   bool     `json:"two_returns"` // body has two return statements
}

func c10Matrix(t *rapid.T, rows, cols int, label string) [][]int {
	m := make([][]int, rows)
	for i := range m {
		m[i] = []int{}
		for j := 0; j < cols; j++ {
			if rapid.Bool().Draw(t, fmt.Sprintf("%s_%d_%d", label, i, j)) {
				m[i] = append(m[i], j)
			}
		}
	}
	return m
}

func c10Gen(t *rapid.T) *c10Case {
	c := &c10Case{}
	np := rapid.IntRange(0, 3).Draw(t, "nparams")
	nr := rapid.IntRange(0, 2).Draw(t, "nresults")
	for i := 0; i < np; i++ {
		c.Params = append(c.Params, rapid.SampledFrom(c10ParamTypes).Draw(t, "ptype"))
	}
	for j := 0; j < nr; j++ {
		c.Results = append(c.Results, rapid.SampledFrom(c10ResTypes).Draw(t, "rtype"))
	}
	c.Form = rapid.SampledFrom([]string{"direct", "method", "iface", "funcval", "defer", "iface"}).Draw(t, "form")
	switch c.Form {
	case "iface":
		c.Spec = rapid.SampledFrom([]string{"iface", "both", "func"}).Draw(t, "spec")
	case "method":
		c.Spec = "func"
	default:
		c.Spec = "func"
	}
	c.FArgs = c10Matrix(t, np, np, "fa")
	c.FRets = c10Matrix(t, np, nr, "fr")
	c.IArgs = c10Matrix(t, np, np, "ia")
	c.IRets = c10Matrix(t, np, nr, "ir")
	c.BodyArgs = c10Matrix(t, np, np, "ba")
	c.BodyRets = c10Matrix(t, np, nr, "br")
	c.TwoRet = rapid.Bool().Draw(t, "tworet")
	return c
}

func c10Read(typ, v string) string {
	switch typ {
	case "string":
		return v
	case "*S":
		return v + ".V"
	case "[]string":
		return "first(" + v + ")"
	case "map[string]string":
		return v + `["k"]`
	case "any":
		return "str(" + v + ")"
	}
	panic(typ)
}

func c10Make(typ, e string) string {
	switch typ {
	case "string":
		return e
	case "*S":
		return "&S{V: " + e + "}"
	case "[]string":
		return "[]string{" + e + "}"
	}
	panic(typ)
}

func c10Write(typ, v, e string) string {
	switch typ {
	case "*S":
		return v + ".V = " + e
	case "[]string":
		return "setfirst(" + v + ", " + e + ")"
	case "map[string]string":
		return v + `["k"] = ` + e
	case "any":
		return "setany(" + v + ", " + e + ")"
	}
	return ""
}

func c10Fresh(typ string, k int) string {
	lit := fmt.Sprintf("\"v%d\"", k)
	switch typ {
	case "string":
		return lit
	case "*S":
		return "&S{V: " + lit + "}"
	case "[]string":
		return "[]string{" + lit + "}"
	case "map[string]string":
		return `map[string]string{"k": ` + lit + "}"
	case "any":
		return "any(&S{V: " + lit + "})"
	}
	panic(typ)
}

// c10Body renders a function body realising the drawn body flows; inverted selects which of two bodies (the second
// implementation / second return uses the complement-free variant: no flows at all).
func c10Body(c *c10Case, withFlows bool) string {
	var b strings.Builder
	names := []string{"a", "b", "c"}
	// argument-to-argument writes
	if withFlows {
		for i := range c.Params {
			for _, k := range c.BodyArgs[i] {
				if k == i || !c10PointerLike(c.Params[k]) {
					continue
				}
				fmt.Fprintf(&b, "\t%s\n", c10Write(c.Params[k], names[k], c10Read(c.Params[i], names[i])))
			}
		}
	}
	ret := func() string {
		var rs []string
		for j, rt := range c.Results {
			e := fmt.Sprintf("\"r%d\"", j)
			if withFlows {
				for i := range c.Params {
					for _, jj := range c.BodyRets[i] {
						if jj == j {
							e += " + " + c10Read(c.Params[i], names[i])
						}
					}
				}
			}
			rs = append(rs, c10Make(rt, e))
		}
		if len(rs) == 0 {
			return "\treturn\n"
		}
		return "\treturn " + strings.Join(rs, ", ") + "\n"
	}
	if c.TwoRet {
		b.WriteString("\tif cond(7) {\n\t" + ret() + "\t}\n")
	}
	b.WriteString(ret())
	return b.String()
}

func c10Sig(c *c10Case) (params, results string) {
	names := []string{"a", "b", "c"}
	var ps []string
	for i, p := range c.Params {
		ps = append(ps, names[i]+" "+p)
	}
	params = strings.Join(ps, ", ")
	if len(c.Results) > 0 {
		results = " (" + strings.Join(c.Results, ", ") + ")"
	}
	return
}

// c10Program renders the analysed program. Lines of interest are found again by their trailing markers.
func c10Program(c *c10Case) string {
	var b strings.Builder
	params, results := c10Sig(c)
	b.WriteString("package main\n\n")
	b.WriteString("type S struct{ V string }\n\n")
	b.WriteString("var opaque [16]bool\n\nfunc cond(i int) bool { return opaque[i] }\n\n")
	b.WriteString("func first(l []string) string {\n\tif len(l) > 0 {\n\t\treturn l[0]\n\t}\n\treturn \"\"\n}\n\n")
	b.WriteString("func setfirst(l []string, s string) {\n\tif len(l) > 0 {\n\t\tl[0] = s\n\t}\n}\n\n")
	b.WriteString("func str(x any) string {\n\tif p, ok := x.(*S); ok {\n\t\treturn p.V\n\t}\n\treturn \"\"\n}\n\n")
	b.WriteString("func setany(x any, s string) {\n\tif p, ok := x.(*S); ok {\n\t\tp.V = s\n\t}\n}\n\n")
	for i, p := range c.Params {
		fmt.Fprintf(&b, "func source%d() %s { return %s }\n\n", i, p, c10Fresh(p, i))
		if c10PointerLike(p) {
			fmt.Fprintf(&b, "func sinkA%d(x %s) {}\n\n", i, p)
		}
	}
	for j, r := range c.Results {
		fmt.Fprintf(&b, "func sinkR%d(x %s) {}\n\n", j, r)
	}
	switch c.Form {
	case "direct", "funcval", "defer":
		fmt.Fprintf(&b, "func f(%s)%s {\n%s}\n\n", params, results, c10Body(c, true))
	case "method":
		fmt.Fprintf(&b, "type A struct{ n int }\n\nfunc (x *A) M(%s)%s {\n%s}\n\n", params, results, c10Body(c, true))
	case "iface":
		fmt.Fprintf(&b, "type I interface {\n\tM(%s)%s\n}\n\n", params, results)
		fmt.Fprintf(&b, "type A struct{ n int }\n\nfunc (x *A) M(%s)%s {\n%s}\n\n", params, results, c10Body(c, true))
		fmt.Fprintf(&b, "type B struct{ n int }\n\nfunc (x B) M(%s)%s {\n%s}\n\n", params, results, c10Body(c, false))
	}
	var args []string
	for i := range c.Params {
		args = append(args, fmt.Sprintf("x%d", i))
	}
	al := strings.Join(args, ", ")
	if c.Form == "defer" {
		fmt.Fprintf(&b, "func wrap(%s) {\n\tdefer f(%s)\n}\n\n", params, strings.Join([]string{"a", "b", "c"}[:len(c.Params)], ", "))
	}
	b.WriteString("func main() {\n")
	for i := range c.Params {
		fmt.Fprintf(&b, "\tx%d := source%d() // SRC%d\n", i, i, i)
	}
	var res []string
	for j := range c.Results {
		res = append(res, fmt.Sprintf("r%d", j))
	}
	assign := ""
	if len(res) > 0 {
		assign = strings.Join(res, ", ") + " := "
	}
	switch c.Form {
	case "direct":
		fmt.Fprintf(&b, "\t%sf(%s)\n", assign, al)
	case "funcval":
		fmt.Fprintf(&b, "\tg := f\n\tif cond(1) {\n\t\tg = nil\n\t}\n\t%sg(%s)\n", assign, al)
	case "defer":
		fmt.Fprintf(&b, "\twrap(%s)\n", al)
	case "method":
		fmt.Fprintf(&b, "\to := &A{}\n\t%so.M(%s)\n", assign, al)
	case "iface":
		fmt.Fprintf(&b, "\tvar o I = &A{}\n\tif cond(2) {\n\t\to = B{}\n\t}\n\t%so.M(%s)\n", assign, al)
	}
	if c.Form != "defer" {
		for j := range c.Results {
			fmt.Fprintf(&b, "\tsinkR%d(r%d) // SINKR%d\n", j, j, j)
		}
	}
	for i, p := range c.Params {
		if c10PointerLike(p) {
			fmt.Fprintf(&b, "\tsinkA%d(x%d) // SINKA%d\n", i, i, i)
		}
	}
	b.WriteString("}\n")
	return b.String()
}

func c10SpecJSON(c *c10Case) string {
	type sum struct {
		Args [][]int
		Rets [][]int
	}
	type contract struct {
		InterfaceID string `json:"InterfaceId,omitempty"`
		ObjectPath  string `json:",omitempty"`
		Methods     map[string]sum
	}
	recv := func(m [][]int, isArgs bool) [][]int {
		// methods: parameter 0 is the receiver; shift the user-level matrix by one and give the receiver an empty row
		out := [][]int{{}}
		for _, row := range m {
			r := []int{}
			for _, x := range row {
				if isArgs {
					r = append(r, x+1)
				} else {
					r = append(r, x)
				}
			}
			out = append(out, r)
		}
		return out
	}
	var cs []contract
	fn := func() {
		switch c.Form {
		case "direct", "funcval", "defer":
			cs = append(cs, contract{ObjectPath: core.MainPkgPath, Methods: map[string]sum{"f": {Args: c.FArgs, Rets: c.FRets}}})
		case "method", "iface":
			cs = append(cs, contract{ObjectPath: "(*" + core.MainPkgPath + ".A)", Methods: map[string]sum{"M": {Args: recv(c.FArgs, true), Rets: recv(c.FRets, false)}}})
			if c.Form == "iface" {
				cs = append(cs, contract{ObjectPath: "(" + core.MainPkgPath + ".B)", Methods: map[string]sum{"M": {Args: recv(c.FArgs, true), Rets: recv(c.FRets, false)}}})
			}
		}
	}
	in := func() {
		cs = append(cs, contract{InterfaceID: core.MainPkgPath + ".I", Methods: map[string]sum{"M": {Args: recv(c.IArgs, true), Rets: recv(c.IRets, false)}}})
	}
	switch c.Spec {
	case "func":
		fn()
	case "iface":
		in()
	case "both":
		if len(c.Params)%2 == 0 { // vary the order in the file
			fn()
			in()
		} else {
			in()
			fn()
		}
	}
	bs, _ := json.MarshalIndent(cs, "", " ")
	return string(bs)
}

func lineOfMarker(src, marker string) int {
	for i, l := range strings.Split(src, "\n") {
		if strings.HasSuffix(l, "// "+marker) {
			return i + 1
		}
	}
	return 0
}

func closure(m [][]int, n int) [][]bool {
	r := make([][]bool, n)
	for i := range r {
		r[i] = make([]bool, n)
		r[i][i] = true
		if i < len(m) {
			for _, k := range m[i] {
				if k < n {
					r[i][k] = true
				}
			}
		}
	}
	for k := 0; k < n; k++ {
		for i := 0; i < n; i++ {
			for j := 0; j < n; j++ {
				if r[i][k] && r[k][j] {
					r[i][j] = true
				}
			}
		}
	}
	return r
}

// c10Judge analyses the case and compares with the model. It returns "" or a description of the disagreement.
func c10Judge(c *c10Case, scratch string) (string, map[string]string, bool) {
	src := c10Program(c)
	spec := c10SpecJSON(c)
	cfgText := core.TaintOpts{SpecFiles: []string{"specs.json"}, SinkMethod: "^sink[AR][0-9]$"}.YAML()
	files := map[string]string{"main.go": src, "specs.json": spec, "config.yaml": cfgText}
	cj, _ := json.MarshalIndent(c, "", " ")
	files["case.json"] = string(cj)
	if err := core.WriteFiles(scratch, map[string]string{"specs.json": spec}); err != nil {
		panic(err)
	}
	cfg, err := config.Load(filepath.Join(scratch, "config.yaml"), []byte(cfgText))
	if err != nil {
		panic(err)
	}
	l, err := core.LoadSource(map[string]string{"main.go": src})
	if err != nil {
		panic(fmt.Sprintf("generated C10 program does not build: %v\n%s", err, src))
	}
	out := core.RunTaint(cfg, l)
	if out.Panic != "" {
		return "analysis panicked: " + out.Panic, files, false
	}
	if out.Err != nil {
		return "analysis returned error: " + out.Err.Error(), files, false
	}
	// which matrix decides
	args, rets := c.FArgs, c.FRets
	if c.Form == "iface" && (c.Spec == "iface" || c.Spec == "both") {
		args, rets = c.IArgs, c.IRets
	}
	np := len(c.Params)
	cl := closure(args, np)
	has := func(row []int, x int) bool {
		for _, y := range row {
			if y == x {
				return true
			}
		}
		return false
	}
	reported := func(srcLine, sinkLine int) bool {
		return out.Pairs[core.Pair{SrcFile: "main.go", Src: srcLine, SinkFile: "main.go", Sink: sinkLine}]
	}
	var problems []string
	differs := false
	for i := 0; i < np; i++ {
		sl := lineOfMarker(src, fmt.Sprintf("SRC%d", i))
		if c.Form != "defer" {
			for j := range c.Results {
				kl := lineOfMarker(src, fmt.Sprintf("SINKR%d", j))
				direct := has(rets[i], j)
				// possible through the transitive closure of Args then Rets
				possible := false
				for k := 0; k < np; k++ {
					if cl[i][k] && has(rets[k], j) {
						possible = true
					}
				}
				got := reported(sl, kl)
				if direct != has(c.BodyRets[i], j) {
					differs = true
				}
				if direct && !got {
					problems = append(problems, fmt.Sprintf("spec lists result %d for argument %d but flow source%d->sinkR%d (line %d->%d) is not reported", j, i, i, j, sl, kl))
				}
				if !possible && got {
					problems = append(problems, fmt.Sprintf("spec does not list result %d for argument %d (nor via listed argument flows) but flow line %d->%d is reported", j, i, sl, kl))
				}
			}
		}
		for k := 0; k < np; k++ {
			if k == i || !c10PointerLike(c.Params[k]) {
				continue
			}
			kl := lineOfMarker(src, fmt.Sprintf("SINKA%d", k))
			direct := has(args[i], k)
			got := reported(sl, kl)
			if direct != has(c.BodyArgs[i], k) {
				differs = true
			}
			if direct && !got {
				problems = append(problems, fmt.Sprintf("spec lists argument %d for argument %d but flow line %d->%d is not reported", k, i, sl, kl))
			}
			if !cl[i][k] && got {
				problems = append(problems, fmt.Sprintf("spec does not list argument %d for argument %d but flow line %d->%d is reported", k, i, sl, kl))
			}
		}
	}
	if len(problems) > 0 {
		sort.Strings(problems)
		return strings.Join(problems, "; ") + " [reported: " + strings.Join(out.PairList(), ",") + "]", files, differs
	}
	return "", files, differs
}

func c10Check(rec *core.Recorder, scratch string) func(t *rapid.T) {
	return func(t *rapid.T) {
		c := c10Gen(t)
		res, files, differs := c10Judge(c, scratch)
		h := core.Hash(files["main.go"], files["specs.json"])
		rec.Case(h, differs && len(c.Params) > 0, []string{"form:" + c.Form, "spec:" + c.Spec, fmt.Sprintf("arity:%d/%d", len(c.Params), len(c.Results))},
			func() any {
				return map[string]any{"program": core.Truncate(files["main.go"], 70), "specs": files["specs.json"]}
			})
		if res != "" {
			sig := "c10-" + c.Form + "-" + c.Spec
			if strings.Contains(res, "not reported") {
				sig += "-missing"
			} else {
				sig += "-extra"
			}
			msg := env.Report(core.Violation{ID: "C10", Signature: sig, What: res, Files: files, Kind: "c10"})
			t.Fatalf("%s", msg)
		}
	}
}

func c10Replay(dir string) string {
	b, err := os.ReadFile(filepath.Join(dir, "case.json"))
	if err != nil {
		return "cannot read case: " + err.Error()
	}
	var c c10Case
	if err := json.Unmarshal(b, &c); err != nil {
		return "cannot parse case: " + err.Error()
	}
	scratch, _ := os.MkdirTemp(env.Out, "c10r")
	defer os.RemoveAll(scratch)
	res, _, _ := c10Judge(&c, scratch)
	return res
}

func init() { replayers["c10"] = c10Replay }

func TestC10(t *testing.T) {
	rec := core.NewRecorder("C10", env, "cases = (signature of arity<=3 with <=2 results over {string,*S,[]string,map,any}, call form, "+
		"function and/or interface 0/1 matrices, independently drawn body flows); non-trivial = the deciding matrix differs from what "+
		"the body does in at least one judged cell; distinct = hash of program+spec text")
	rec.Assumptions = []string{"in-process SSA build equals the documented loader for import-free programs (cross-checked by C05)",
		"flows implied only by the transitive closure of listed argument flows are not judged in either direction"}
	defer rec.Flush()
	replayKnown(t, "C10")
	scratch, _ := os.MkdirTemp(env.Out, "c10")
	defer os.RemoveAll(scratch)
	rapidSetup(env.Pick(2400, 300000), 10)
	rapid.Check(t, c10Check(rec, scratch))
}

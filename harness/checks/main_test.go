package checks

import (
	"encoding/json"
	"flag"
	"fmt"
	"os"
	"path/filepath"
	"sort"
	"strings"
	"testing"
	"time"

	"github.com/awslabs/ar-go-tools/verifharness/core"
	"pgregory.net/rapid"
)

var env core.Env

func TestMain(m *testing.M) {
	flag.Parse()
	env = core.GetEnv()
	_ = flag.Set("rapid.nofailfile", "true")
	code := m.Run()
	os.Exit(code)
}

// rapidSetup sets rapid's flags for the next rapid.Check: number of checks, seed (never 0) and shrink budget.
func rapidSetup(checks int, salt int) {
	_ = flag.Set("rapid.checks", fmt.Sprint(checks))
	_ = flag.Set("rapid.seed", fmt.Sprint(env.RapidSeed(salt)))
	shrink := 8 * time.Second
	if env.Thorough() {
		shrink = 30 * time.Second
	}
	_ = flag.Set("rapid.shrinktime", shrink.String())
	_ = os.RemoveAll("testdata/rapid")
}

// replayFunc re-judges a stored case directory; it returns "" if the property holds on it and a description of the
// violation otherwise.
type replayFunc func(dir string) string

var replayers = map[string]replayFunc{}

type finding struct {
	Property  string   `json:"property"`
	Status    string   `json:"status"` // known | fixed
	Repro     string   `json:"repro"`  // directory under /verif
	What      string   `json:"what"`
	Signature string   `json:"signature"`
	Excludes  []string `json:"excludes"` // generator features switched off so that the search goes on
	Commit    string   `json:"commit,omitempty"`
}

var findingsCache []finding

func loadFindings() []finding {
	if findingsCache != nil {
		return findingsCache
	}
	b, err := os.ReadFile(filepath.Join(env.Root, "known_findings.json"))
	if err != nil {
		return nil
	}
	var doc struct {
		Findings []finding `json:"findings"`
	}
	if err := json.Unmarshal(b, &doc); err != nil {
		panic("known_findings.json does not parse: " + err.Error())
	}
	findingsCache = doc.Findings
	return findingsCache
}

// exclusionGroup: properties whose checks judge the same soundness relation share the exclusions of each other's
// recorded findings (a flow the taint analysis is known to miss is also missing from the other flow checks).
var exclusionGroup = map[string][]string{
	"C01": {"C01", "C02", "C03", "C13"},
	"C02": {"C01", "C02", "C03", "C13"},
	"C03": {"C01", "C02", "C03", "C13"},
	"C13": {"C01", "C02", "C03", "C13"},
}

var currentProperty string

// excluded returns the generator features switched off by the known (unfixed) findings that concern the property
// being checked (VERIF_ID).
func excluded() map[string]bool {
	id := currentProperty
	if id == "" {
		id = os.Getenv("VERIF_ID")
	}
	group := exclusionGroup[id]
	if group == nil {
		group = []string{id}
	}
	m := map[string]bool{}
	for _, f := range loadFindings() {
		if f.Status != "known" {
			continue
		}
		for _, g := range group {
			if f.Property == g {
				for _, e := range f.Excludes {
					m[e] = true
				}
			}
		}
	}
	return m
}

// replayKnown replays, on shard 0 only, the stored repros of the property: known findings that still fail print a
// KNOWN-FINDING line; repros of fixed defects and regression cases must pass, otherwise the violation is reported.
func replayKnown(t *testing.T, id string) {
	currentProperty = id
	if env.Shard != 0 {
		return
	}
	for _, f := range loadFindings() {
		if f.Property != id {
			continue
		}
		dir := filepath.Join(env.Root, f.Repro)
		kind := readKind(dir)
		rf := replayers[kind]
		if rf == nil {
			t.Fatalf("no replayer %q for %s", kind, dir)
		}
		res := rf(dir)
		switch f.Status {
		case "known":
			if res != "" {
				fmt.Printf("KNOWN-FINDING: property=%s %s [%s]\n", id, f.What, f.Repro)
			} else {
				fmt.Printf("VERIF-INFO: known finding of %s no longer reproduces: %s\n", id, f.Repro)
			}
		case "fixed":
			if res != "" {
				fmt.Printf("REGRESSION-VIOLATION %s property=%s fixed defect is back: %s: %s\n", dir, id, f.What, oneLine(res))
				t.Fail()
			}
		}
	}
	// plain regression cases
	dirs, _ := filepath.Glob(filepath.Join(env.Root, "regress", id, "*"))
	sort.Strings(dirs)
	for _, dir := range dirs {
		kind := readKind(dir)
		rf := replayers[kind]
		if rf == nil {
			continue
		}
		if res := rf(dir); res != "" {
			fmt.Printf("REGRESSION-VIOLATION %s property=%s regression case fails: %s\n", dir, id, oneLine(res))
			t.Fail()
		}
	}
}

func oneLine(s string) string {
	s = strings.ReplaceAll(s, "\n", " | ")
	if len(s) > 2500 {
		s = s[:2500]
	}
	return s
}

func readKind(dir string) string {
	b, err := os.ReadFile(filepath.Join(dir, "violation.json"))
	if err != nil {
		return ""
	}
	var v core.Violation
	_ = json.Unmarshal(b, &v)
	return v.Kind
}

// TestReplay re-judges the directory in VERIF_REPLAY without going through rapid.
func TestReplay(t *testing.T) {
	dir := os.Getenv("VERIF_REPLAY")
	if dir == "" {
		t.Skip("no VERIF_REPLAY")
	}
	kind := readKind(dir)
	rf := replayers[kind]
	if rf == nil {
		t.Fatalf("no replayer for kind %q", kind)
	}
	if res := rf(dir); res != "" {
		t.Fatalf("still violated: %s", res)
	}
}

var _ = rapid.Check

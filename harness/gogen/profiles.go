package gogen

import "os"

// FlowProfile is the C01 domain: no goroutines, reflection, unsafe or recover.
func FlowProfile(off map[string]bool) *Profile {
	p := &Profile{
		Name: "flow",
		Weights: map[string]int{
			"source": 10, "sink": 9, "decl": 10, "assign": 6, "store": 12, "call": 12, "methodcall": 4, "ifacecall": 4,
			"funcval": 4, "closure": 5, "defer": 3, "if": 5, "for": 2, "range": 3, "switch": 1, "typeswitch": 2,
			"commaok": 3, "chan": 2, "copy": 2, "mapops": 2, "generic": 2, "variadic": 2, "methodvalue": 2,
			"structcopy": 2, "return": 2, "panic": 1, "globalrw": 7, "goto": 1,
		},
		MaxHelpers: 5,
		MainStmts:  [2]int{6, 16},
		FnStmts:    [2]int{2, 8},
		MaxDepth:   3,
		Off:        off,
	}
	if os.Getenv("VERIF_PROFILE") == "small" {
		p.MaxHelpers, p.MainStmts, p.FnStmts, p.MaxDepth = 2, [2]int{3, 7}, [2]int{1, 4}, 2
	}
	return p
}

// SanitizeProfile is the flow profile plus sanitizer and validator calls (C02).
func SanitizeProfile(off map[string]bool) *Profile {
	p := FlowProfile(off)
	p.Name = "sanitize"
	p.Sanitize = true
	p.Weights["sanitize"] = 6
	p.Weights["validate"] = 9
	return p
}

// WildProfile is the C07 domain: everything, inside or outside the soundness fragment.
func WildProfile(off map[string]bool) *Profile {
	p := SanitizeProfile(map[string]bool{"closure-recursion": off["closure-recursion"]})
	p.Name = "wild"
	p.Wild = true
	p.Weights["wild"] = 14
	p.Weights["panic"] = 2
	return p
}

// DispatchProfile is the C12/C18 domain: the flow profile with every function entry instrumented (enter(id)) and
// more weight on the dynamic call forms.
func DispatchProfile(off map[string]bool) *Profile {
	p := FlowProfile(off)
	p.Name = "dispatch"
	p.Enter = true
	for _, k := range []string{"call", "methodcall", "ifacecall", "funcval", "closure", "methodvalue", "generic", "defer"} {
		p.Weights[k] += 4
	}
	p.Weights["panic"] = 0
	return p
}

// PointerProfile is the C11 domain: the flow profile with probe statements on pointer-like values and more weight on
// statements that move references around.
func PointerProfile(off map[string]bool) *Profile {
	p := FlowProfile(off)
	p.Name = "pointer"
	p.Probes = true
	p.Weights["probe"] = 24
	p.Weights["source"] = 3
	p.Weights["sink"] = 2
	for _, k := range []string{"store", "decl", "assign", "call", "closure", "globalrw", "structcopy", "methodcall"} {
		p.Weights[k] += 4
	}
	p.Weights["panic"] = 0
	return p
}

// ConcurrentProfile is the C13 domain: the flow profile plus goroutines that share memory with their creator.
func ConcurrentProfile(off map[string]bool) *Profile {
	p := FlowProfile(off)
	p.Name = "concurrent"
	p.Go = true
	p.Weights["go"] = 12
	p.Weights["chan"] = 5
	p.Weights["panic"] = 0
	p.Weights["defer"] = 1
	return p
}

#!/bin/bash
# tools/process_seeded.sh <id> [seed]: takes a sub-agent's deliverables from /tmp/sa-<id>.out into seeded/<id>/, removes the
# agent's worktree, confirms the change (tools/confirm_seeded.sh, existing tests included) and runs the property's quick
# check against it (tools/evalmut.sh). Logs are appended to seeded/confirm.log and seeded/evaluation.log.
id=$1; seed=${2:-1}; prop=${id:0:3}
src=/tmp/sa-$id.out
d=/verif/seeded/$id
mkdir -p $d /tmp/seeded/$id
for f in patch.diff demo.sh existing.txt agent-meta.json; do cp $src/$f $d/ || { echo "$id: missing $f"; exit 1; }; done
rm -rf $d/demo; cp -r $src/demo $d/demo
git -C /repo worktree remove --force /tmp/sa-$id 2>/dev/null; rm -rf /tmp/sa-$id
/verif/tools/confirm_seeded.sh $d 2>&1 | tee -a /verif/seeded/confirm.log | tail -6
/verif/tools/evalmut.sh $id $prop $seed | tee -a /verif/seeded/evaluation.log

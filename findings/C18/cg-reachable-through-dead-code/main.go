package main

type S struct {
	A string
	B string
	P *string
	L []string
	M map[string]string
	N *S
	F func(string) string
	X any
	I Box
}

type E struct {
	S
	Z string
}

type Name string

type Box interface {
	Get() string
	Put(s string)
	peek() string
}

type BoxA struct{ v string }

func (b *BoxA) Get() string  { enter(901); return b.v }
func (b *BoxA) Put(s string) { enter(902); b.v = s }
func (b *BoxA) peek() string { enter(903); return b.v }

type BoxB struct{ l []string }

func (b *BoxB) Get() string {
	enter(904)
	if len(b.l) > 0 {
		return b.l[len(b.l)-1]
	}
	return ""
}
func (b *BoxB) Put(s string) { enter(905); b.l = append(b.l, s) }
func (b *BoxB) peek() string { enter(906); return b.Get() }

type BoxC struct{ p *string }

func (b BoxC) Get() string  { enter(907); return *b.p }
func (b BoxC) Put(s string) { enter(908); *b.p = s }
func (b BoxC) peek() string { enter(909); return *b.p }

type BoxD struct {
	f func(string) string
	v string
}

func (b BoxD) Get() string  { enter(910); return b.f(b.v) }
func (b BoxD) Put(s string) { enter(911); sinkhole = b.f(s) }
func (b BoxD) peek() string { enter(912); return b.f(b.v) }

var sinkhole string

func (s *S) GetA() string   { enter(913); return s.A }
func (s *S) SetA(x string)  { enter(914); s.A = x }
func (s S) CopyB() string   { enter(915); return s.B }
func (s *S) Self() *S       { enter(916); return s }
func (s *S) Both() (string, string) { enter(917); return s.A, s.B }

func idf(x string) string   { enter(918); return x }
func dropf(x string) string { enter(919); return "dropped" }

func ident[T any](x T) T { enter(920); return x }

func pair[T any, U any](x T, y U) (U, T) { enter(921); return y, x }

func vcat(xs ...string) string {
	enter(922)
	r := ""
	for _, x := range xs {
		r += x
	}
	return r
}

func newS(a string) *S {
	enter(923)
	return &S{A: a, P: new(string), L: make([]string, 2), M: map[string]string{}}
}

var G0 string
var GP = newS("")
var GS = S{P: new(string), L: make([]string, 2), M: map[string]string{}}
var GL = make([]string, 2)
var GM = map[string]string{}
var GA [2]string
var GF func(string) string = idf
var GX any
var GPP = new(string)
func (r S) M4(p0 map[string]string, p1 Box, p2 func(string) string) (any, []byte) {
	p1.Put(r.A)
	v2 := r.A; _ = v2
	return any(&v2), []byte("c8")
}
func (r *S) M3(p0 *S, p1 E) {
	v10, v11 := pair(any(r), r.B); _, _ = v10, v11
	defer (p1.S).M4(map[string]string{"k": v10}, &BoxB{l: []string{v10}}, func(x string) string { enter(2004); return x + v10 })
}
func f0(p0 []string) (E, Box) {
	v30 := S{A: p0[1], P: &p0[0], L: make([]string, 2), M: map[string]string{}, I: BoxC{p: new(string)}, N: &S{A: "c29", P: new(string), L: make([]string, 2), M: map[string]string{}}}; _ = v30
	var v31 Box = &BoxA{v: v30.B}; _ = v31
	v32 := source2(111); _ = v32
	_, v34 := (S{A: p0[0], P: new(string), L: make([]string, 2), M: map[string]string{}}).M4(v32.M, &BoxA{v: v30.A}, func(x string) string { enter(2010); return x }); _, _ = 0, v34
	return E{S: S{A: *v32.P, P: new(string), L: make([]string, 2), M: map[string]string{}, B: p0[1]}, Z: string(v34)}, v31
}
func main() {
	v37 := ident(newS("c36")); _ = v37
	v38 := *v37.P; _ = v38
	v41, v42 := f0([]string{v38, "c40"}); _, _ = v41, v42
}

package main

var opaque [64]bool

func cond(i int) bool { return opaque[i&63] }

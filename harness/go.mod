module github.com/awslabs/ar-go-tools/verifharness

go 1.23

godebug default=go1.22

require (
	github.com/awslabs/ar-go-tools v0.0.0
	golang.org/x/tools v0.24.0
	gopkg.in/yaml.v3 v3.0.1
	pgregory.net/rapid v1.3.0
)

require (
	github.com/dave/dst v0.27.3 // indirect
	github.com/yourbasic/graph v0.0.0-20210606180040-8ecfec1c2869 // indirect
	golang.org/x/exp v0.0.0-20240719175910-8a7402abbf56 // indirect
	golang.org/x/mod v0.20.0 // indirect
	golang.org/x/sync v0.8.0 // indirect
	golang.org/x/sys v0.25.0 // indirect
	golang.org/x/term v0.24.0 // indirect
	gonum.org/v1/gonum v0.15.0 // indirect
)

replace github.com/awslabs/ar-go-tools => /repo

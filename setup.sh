#!/bin/bash
# Builds the harness test binaries from files on disk (offline); warms the Go build cache.
set -e
cd "$(dirname "$0")"
export GOFLAGS=-mod=mod GOPROXY=off GOSUMDB=off GOTOOLCHAIN=local
mkdir -p .build evidence
(cd harness && go test -c -tags verif -o ../.build/checks.test ./checks && go build -tags verif -o ../.build/probe ./cmd/probe)
echo "setup ok"

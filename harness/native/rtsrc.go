// Package native builds and runs generated programs natively, instrumented so that a run reports which source data
// reached which sink (and which functions were entered, which probes saw which addresses...).
package native

// RtSource is the runtime library the native renderings import (module vnative, package rt).
const RtSource = `package rt

import (
	"encoding/json"
	"fmt"
	"os"
	"reflect"
	"runtime"
	"strconv"
	"strings"
	"sync"
	"sync/atomic"
	"time"
	"unsafe"
)

var gStarted, gFinished int64

// GStart / GDone bracket every generated goroutine; WaitAll lets main wait (bounded) for all of them.
func GStart() { atomic.AddInt64(&gStarted, 1) }
func GDone()  { atomic.AddInt64(&gFinished, 1) }
func Yield()  { runtime.Gosched() }
func WaitAll() {
	deadline := time.Now().Add(2 * time.Second)
	for atomic.LoadInt64(&gFinished) < atomic.LoadInt64(&gStarted) && time.Now().Before(deadline) {
		runtime.Gosched()
		time.Sleep(50 * time.Microsecond)
	}
}

var Opaque uint64
var Prog string

var mu sync.Mutex

type flow struct{ Src, Sink, Arg int }

var flows = map[flow]bool{}
var approved = map[int]bool{}
var minHops = map[[2]int]int{}
var sanitizedSeen = map[flow]bool{}
var entered = map[int]bool{}
var calls = map[string]bool{}
var deferOrder []int
var nmark int

func init() {
	if len(os.Args) >= 2 {
		v, _ := strconv.ParseUint(os.Args[1], 10, 64)
		Opaque = v
	}
}

type probeRec struct {
	ID   int
	Kind int
	Addr uintptr
	Size uintptr
}

var probes []probeRec
var retained []unsafe.Pointer

// Probe records that the pointer-like value observed by probe id refers to the memory [p, p+size). The pointer is
// retained, so the object stays alive (and on the heap) and equal addresses within one execution mean the same object.
func Probe(id int, kind int, p unsafe.Pointer, size uintptr) {
	if p == nil || size == 0 {
		return
	}
	mu.Lock()
	defer mu.Unlock()
	if len(probes) < 4000 {
		probes = append(probes, probeRec{id, kind, uintptr(p), size})
		retained = append(retained, p)
	}
}

// ResetState prepares the runtime for another execution in the same process.
func ResetState(prog string, val uint64) {
	mu.Lock()
	defer mu.Unlock()
	Prog = prog
	Opaque = val
	flows = map[flow]bool{}
	approved = map[int]bool{}
	minHops = map[[2]int]int{}
	sanitizedSeen = map[flow]bool{}
	entered = map[int]bool{}
	calls = map[string]bool{}
	deferOrder = nil
	probes = nil
	retained = nil
	Extra = map[string]any{}
}

func Cond(i int) bool { return Opaque>>(uint(i)&15)&1 == 1 }

func Bound(i int) int {
	n := 0
	if Cond(i) {
		n++
	}
	if Cond(i + 1) {
		n++
	}
	return n
}

// Marker returns a fresh marker string for the source call on the given line.
func Marker(line int) string {
	mu.Lock()
	nmark++
	n := nmark
	mu.Unlock()
	return fmt.Sprintf("⟦S%d.%d⟧", line, n)
}

func callerProg(skip int) string {
	_, file, _, ok := runtime.Caller(skip)
	if !ok {
		return ""
	}
	i := strings.LastIndexByte(file, '/')
	if i < 0 {
		return ""
	}
	dir := file[:i]
	j := strings.LastIndexByte(dir, '/')
	return dir[j+1:]
}

func scan(s string, f func(kind byte, line int)) {
	for {
		i := strings.Index(s, "⟦")
		if i < 0 {
			return
		}
		s = s[i+len("⟦"):]
		j := strings.Index(s, "⟧")
		if j < 0 {
			return
		}
		body := s[:j]
		if k := strings.Index(body, "⟦"); k >= 0 {
			// nested opening: restart from it
			s = s[k:]
			continue
		}
		if len(body) >= 2 && (body[0] == 'S' || body[0] == 'Z') {
			if d := strings.IndexByte(body, '.'); d > 1 {
				if n, err := strconv.Atoi(body[1:d]); err == nil {
					f(body[0], n)
				}
			}
		}
		s = s[j:]
	}
}

type visitKey struct {
	p uintptr
	t reflect.Type
}

func walk(v reflect.Value, seen map[visitKey]bool, depth int, f func(s string, hops int)) {
	walkH(v, seen, depth, 0, f)
}

// walkH also counts the reference hops (pointer dereference, slice / map element) taken from the sink argument.
func walkH(v reflect.Value, seen map[visitKey]bool, depth int, hops int, f func(s string, hops int)) {
	if !v.IsValid() || depth > 64 {
		return
	}
	switch v.Kind() {
	case reflect.String:
		f(v.String(), hops)
	case reflect.Pointer:
		if v.IsNil() {
			return
		}
		k := visitKey{v.Pointer(), v.Type()}
		if seen[k] {
			return
		}
		seen[k] = true
		walkH(v.Elem(), seen, depth+1, hops+1, f)
	case reflect.Interface:
		if v.IsNil() {
			return
		}
		walkH(v.Elem(), seen, depth+1, hops, f)
	case reflect.Slice:
		if v.IsNil() {
			return
		}
		if v.Type().Elem().Kind() == reflect.Uint8 {
			f(string(v.Bytes()), hops+1)
			return
		}
		k := visitKey{v.Pointer(), v.Type()}
		if seen[k] && v.Len() > 0 {
			// same backing start: still walk (length may differ) but only once per (ptr,len)
		}
		for i := 0; i < v.Len(); i++ {
			walkH(v.Index(i), seen, depth+1, hops+1, f)
		}
	case reflect.Array:
		for i := 0; i < v.Len(); i++ {
			walkH(v.Index(i), seen, depth+1, hops, f)
		}
	case reflect.Map:
		if v.IsNil() {
			return
		}
		k := visitKey{v.Pointer(), v.Type()}
		if seen[k] {
			return
		}
		seen[k] = true
		it := v.MapRange()
		for it.Next() {
			walkH(it.Key(), seen, depth+1, hops+1, f)
			walkH(it.Value(), seen, depth+1, hops+1, f)
		}
	case reflect.Struct:
		for i := 0; i < v.NumField(); i++ {
			walkH(v.Field(i), seen, depth+1, hops, f)
		}
	}
}

// Sink records every source marker reachable from the arguments.
func Sink(line int, args ...any) {
	mu.Lock()
	defer mu.Unlock()
	for ai, a := range args {
		seen := map[visitKey]bool{}
		walk(reflect.ValueOf(a), seen, 0, func(s string, hops int) {
			scan(s, func(kind byte, src int) {
				if kind == 'S' {
					flows[flow{src, line, ai}] = true
					k := [2]int{src, line}
					if h, ok := minHops[k]; !ok || hops < h {
						minHops[k] = hops
					}
				} else {
					sanitizedSeen[flow{src, line, ai}] = true
				}
			})
		})
	}
}

// Sanitize returns x with its source markers turned into sanitized markers.
func Sanitize(x string) string {
	return strings.ReplaceAll(x, "⟦S", "⟦Z")
}

// Validate returns the opaque bit; when it approves, the markers of x are approved for this execution.
func Validate(bit int, x string) bool {
	ok := Cond(bit)
	if ok {
		mu.Lock()
		scan(x, func(kind byte, src int) {
			if kind == 'S' {
				approved[src] = true
			}
		})
		mu.Unlock()
	}
	return ok
}

// Enter records that function id was entered and, from the stack, the line of the call site in the program's main.go
// (compiler-generated wrapper frames are elided by the runtime).
func Enter(id int) {
	pcs := make([]uintptr, 8)
	n := runtime.Callers(3, pcs) // 0 Callers, 1 Enter, 2 enter (prelude), 3 the entered function
	fr := runtime.CallersFrames(pcs[:n])
	_, more := fr.Next()
	desc := ""
	if more {
		c, _ := fr.Next()
		if strings.HasSuffix(c.File, "main.go") && !strings.Contains(c.File, "/cmd/") {
			desc = fmt.Sprintf("%d|%d", c.Line, id)
		}
	}
	mu.Lock()
	entered[id] = true
	if desc != "" {
		calls[desc] = true
	}
	mu.Unlock()
}

type report struct {
	Prog     string     ` + "`json:\"prog\"`" + `
	Val      uint64     ` + "`json:\"val\"`" + `
	Flows    [][3]int   ` + "`json:\"flows\"`" + `
	Hops     [][3]int   ` + "`json:\"hops\"`" + `
	Aliases  [][2]int   ` + "`json:\"aliases\"`" + `
	Approved []int      ` + "`json:\"approved\"`" + `
	Entered  []int      ` + "`json:\"entered\"`" + `
	Calls    []string   ` + "`json:\"calls\"`" + `
	Panic    string     ` + "`json:\"panic\"`" + `
	Extra    map[string]any ` + "`json:\"extra,omitempty\"`" + `
}

var Extra = map[string]any{}

// Dump prints the observations of this run as one JSON line.
func Dump(panicked string) {
	mu.Lock()
	defer mu.Unlock()
	r := report{Prog: Prog, Val: Opaque, Panic: panicked, Flows: [][3]int{}, Extra: Extra}
	for f := range flows {
		r.Flows = append(r.Flows, [3]int{f.Src, f.Sink, f.Arg})
	}
	for k, h := range minHops {
		r.Hops = append(r.Hops, [3]int{k[0], k[1], h})
	}
	// pairs of different probes of the same kind whose memory overlapped in this execution
	seenAlias := map[[2]int]bool{}
	for i := 0; i < len(probes); i++ {
		for j := i + 1; j < len(probes); j++ {
			a, b := probes[i], probes[j]
			if a.ID == b.ID || a.Kind != b.Kind {
				continue
			}
			if a.Addr < b.Addr+b.Size && b.Addr < a.Addr+a.Size {
				k := [2]int{a.ID, b.ID}
				if k[0] > k[1] {
					k = [2]int{b.ID, a.ID}
				}
				if !seenAlias[k] {
					seenAlias[k] = true
					r.Aliases = append(r.Aliases, k)
				}
			}
		}
	}
	for a := range approved {
		r.Approved = append(r.Approved, a)
	}
	for e := range entered {
		r.Entered = append(r.Entered, e)
	}
	for c := range calls {
		r.Calls = append(r.Calls, c)
	}
	b, _ := json.Marshal(r)
	fmt.Println("VERIF-RUN " + string(b))
}
`

// MainSource renders cmd/<pkg>/main.go: runs the program once under recover and dumps the observations.
func MainSource(pkg string) string {
	return DispatcherSource([]string{pkg})
}

// DispatcherSource renders a main package that runs one of several programs, selected by the second argument.
func DispatcherSource(pkgs []string) string {
	s := "package main\n\nimport (\n\t\"fmt\"\n\t\"os\"\n\trt \"vnative/rt\"\n"
	for _, p := range pkgs {
		s += "\t\"vnative/" + p + "\"\n"
	}
	s += ")\n\nfunc main() {\n\tif len(os.Args) >= 3 {\n\t\trt.Prog = os.Args[2]\n\t}\n\tdefer func() {\n\t\tif r := recover(); r != nil {\n\t\t\trt.Dump(fmt.Sprint(r))\n\t\t\tos.Exit(0)\n\t\t}\n\t}()\n\tswitch rt.Prog {\n"
	for _, p := range pkgs {
		s += "\tcase \"" + p + "\":\n\t\t" + p + ".Run()\n"
	}
	s += "\tdefault:\n\t\tfmt.Println(\"unknown program\")\n\t\tos.Exit(3)\n\t}\n\trt.Dump(\"\")\n}\n"
	return s
}

// MergedDispatcherSource renders the main package for programs merged into package all (entry points P<i>_Run).
// With one argument pair it runs once; with "-" it reads "prog valuation" lines from stdin and runs them all in
// this process (each under recover, runtime state and program globals reset in between).
func MergedDispatcherSource(pkgs []string) string {
	s := "package main\n\nimport (\n\t\"bufio\"\n\t\"fmt\"\n\t\"os\"\n\trt \"vnative/rt\"\n\t\"vnative/all\"\n)\n\n"
	s += "func runOne(prog string, val uint64) {\n\trt.ResetState(prog, val)\n\tdefer func() {\n\t\tif r := recover(); r != nil {\n\t\t\trt.Dump(fmt.Sprint(r))\n\t\t}\n\t}()\n\tswitch prog {\n"
	for _, p := range pkgs {
		s += "\tcase \"" + p + "\":\n\t\tall.P" + p[1:] + "_Run()\n"
	}
	s += "\tdefault:\n\t\tfmt.Println(\"unknown program\", prog)\n\t\treturn\n\t}\n\trt.Dump(\"\")\n}\n\n"
	s += "func main() {\n\tif len(os.Args) >= 3 {\n\t\trunOne(os.Args[2], rt.Opaque)\n\t\treturn\n\t}\n\tsc := bufio.NewScanner(os.Stdin)\n\tfor sc.Scan() {\n\t\tvar prog string\n\t\tvar val uint64\n\t\tif n, _ := fmt.Sscan(sc.Text(), &prog, &val); n == 2 {\n\t\t\tfmt.Println(\"VERIF-BEGIN\", prog, val)\n\t\t\trunOne(prog, val)\n\t\t}\n\t}\n}\n"
	return s
}

package main

func source1(line int) string { return "src" }

func sink1(line int, x any) {}

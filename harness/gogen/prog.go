package gogen

import (
	"fmt"
	"strings"

	"pgregory.net/rapid"
)

const globalsDecl = `var G0 string
var GP = newS("")
var GS = S{P: new(string), L: make([]string, 2), M: map[string]string{}}
var GL = make([]string, 2)
var GM = map[string]string{}
var GA [2]string
var GF func(string) string = idf
var GX any
var GPP = new(string)
var GW string
`

func (g *gen) sanitizeStmt() {
	if !g.p.Sanitize {
		return
	}
	g.feat("sanitizer")
	e := g.expr(TStr, 1)
	switch g.intn(3, "sank") {
	case 0:
		g.newVar(TStr, "sanitize1("+e+")")
	case 1:
		if v, ok := g.pickVar(TStr, "sanv"); ok {
			// sanitise a copy, keep the original: later use of the original bypasses the sanitizer
			g.emit("%s = sanitize1(%s)", v.name, e)
		}
	default:
		// result ignored: sanitises nothing
		g.emit("sanitize1(%s)", e)
		g.feat("sanitizer-result-dropped")
	}
}

func (g *gen) validateStmt() {
	if !g.p.Sanitize {
		return
	}
	v, ok := g.pickVar(TStr, "valv")
	if !ok {
		return
	}
	g.feat("validator")
	bit := g.bit()
	k := g.intn(11, "valk")
	// Recorded finding (validator-join-single-path): the condition of a flow is taken from ONE path between source and
	// sink, the one through the false edge of each branch. When the false edge is the validated one (stored negation,
	// err != nil), a sink behind the join is judged validated although the other branch reaches it too. With the
	// finding recorded, the unvalidated branch of these shapes leaves the function, so that the join is only reached
	// on the validated path; inside closures, branches and loops the shapes (and the early return) are not generated.
	leave := func() {}
	if (k == 2 || k == 6 || k == 7) && g.off("validator-join-single-path") && g.depth > 1 {
		// nested in a branch or loop: another arm can bypass the validator and join behind it
		k = 1
	}
	if (k == 6 || k == 7) && g.off("validator-join-single-path") {
		if g.closureDepth > 0 || g.inDefer {
			k = 1
		} else if g.curFn >= 0 {
			leave = func() { g.returnStmt() }
		} else {
			leave = func() { g.emit("return") }
		}
	}
	switch k {
	case 6:
		// the negated verdict is stored before it is branched on
		bad := g.fresh()
		g.emit("%s := !validate1(%d, %s)", bad, bit, v.name)
		g.emit("if %s {", bad)
		g.indent++
		g.block(1 + g.intn(2, "valn"))
		leave()
		g.indent--
		if g.chance(50, "valelse") {
			g.emit("} else {")
			g.indent++
			g.block(1 + g.intn(2, "valn2"))
			g.indent--
		}
		g.emit("}")
		g.feat("validator-stored-negation")
	case 7:
		g.emit("if err := validateE(%d, %s); err != nil {", bit, v.name)
		g.indent++
		g.block(1 + g.intn(2, "valn"))
		leave()
		g.indent--
		g.emit("} else {")
		g.indent++
		g.block(1 + g.intn(2, "valn2"))
		g.indent--
		g.emit("}")
		g.feat("validator-error-negated")
	case 8:
		// double negation and conjunction with an opaque condition
		g.emit("if !(!validate1(%d, %s)) && cond(%d) {", bit, v.name, g.bit())
		g.indent++
		g.block(1 + g.intn(2, "valn"))
		g.indent--
		g.emit("}")
		g.feat("validator-double-negation")
	case 0:
		g.emit("if validate1(%d, %s) {", bit, v.name)
		g.indent++
		g.block(1 + g.intn(2, "valn"))
		g.indent--
		if g.chance(50, "valelse") {
			g.emit("} else {")
			g.indent++
			g.block(1 + g.intn(2, "valn2"))
			g.indent--
			g.feat("validator-else")
		}
		g.emit("}")
	case 1:
		g.emit("if !validate1(%d, %s) {", bit, v.name)
		g.indent++
		g.block(1 + g.intn(2, "valn"))
		g.indent--
		g.emit("}")
		g.feat("validator-negated")
	case 2:
		if g.curFn >= 0 && g.closureDepth == 0 {
			g.emit("if !validate1(%d, %s) {", bit, v.name)
			g.indent++
			g.returnStmt()
			g.indent--
			g.emit("}")
			g.feat("validator-early-return")
		}
	case 3:
		okv := g.fresh()
		g.emit("%s := validate1(%d, %s)", okv, bit, v.name)
		g.block(1)
		g.emit("if %s {", okv)
		g.indent++
		g.block(1 + g.intn(2, "valn"))
		g.indent--
		g.emit("}")
		g.feat("validator-stored-result")
	case 9:
		// tuple-returning validator, branch on its LAST result (the verdict); the other result is an unrelated bit
		w := g.fresh()
		g.emit("if %s, err := validateT(%d, %d, %s); err == nil {", w, bit, g.bit(), v.name)
		g.indent++
		g.emit("_ = %s", w)
		g.sinkOf(v.name)
		g.block(1 + g.intn(2, "valn"))
		g.indent--
		g.emit("}")
		g.feat("validator-tuple")
	case 10:
		// tuple-returning validator, branch on a result that is NOT the verdict: nothing is validated
		w := g.fresh()
		g.emit("%s, _ := validateT(%d, %d, %s)", w, bit, g.bit(), v.name)
		if g.chance(50, "valtneg") {
			g.emit("if !%s {", w)
		} else {
			g.emit("if %s {", w)
		}
		g.indent++
		g.sinkOf(v.name)
		g.block(1 + g.intn(2, "valn"))
		g.indent--
		g.emit("}")
		g.feat("validator-tuple-nonlast")
	case 4:
		g.emit("if err := validateE(%d, %s); err == nil {", bit, v.name)
		g.indent++
		g.block(1 + g.intn(2, "valn"))
		g.indent--
		g.emit("}")
		g.feat("validator-error")
	default:
		// validate one value, use another one
		g.emit("if validate1(%d, %s) {", bit, g.expr(TStr, 1))
		g.indent++
		g.block(1 + g.intn(2, "valn"))
		g.indent--
		g.emit("}")
		g.feat("validator-other-value")
	}
}

// sinkOf emits a sink of the named string variable on its own line.
func (g *gen) sinkOf(name string) {
	line := g.nextLine()
	g.prog.Sinks[line] = "sink2"
	g.prog.SinkFunc[line] = g.curName
	if sl, ok := g.directSrc[name]; ok {
		g.prog.Direct[[2]int{sl, line}] = true
	}
	g.emit("sink2(%d, %s)", line, name)
}

// WildDecls are extra declarations of the "wild" profile (C07): unsafe, recursive types, mutual recursion, a function
// without body, a generic type with several instantiations.
const WildDecls = `import "unsafe"

type Tree struct {
	Kids []*Tree
	M    map[string]*Tree
	Up   *Tree
	V    string
}

type Rec func(Rec, string) string

type Stack[T any] struct{ items []T }

func (s *Stack[T]) Push(x T) { s.items = append(s.items, x) }
func (s *Stack[T]) Pop() T {
	var zero T
	if len(s.items) == 0 {
		return zero
	}
	x := s.items[len(s.items)-1]
	s.items = s.items[:len(s.items)-1]
	return x
}

func ext(x string) string

func even(n int, s string) string {
	if n <= 0 {
		return s
	}
	return odd(n-1, s+"e")
}

func odd(n int, s string) string {
	if n <= 0 {
		return s
	}
	return even(n-1, s+"o")
}

func walk(t *Tree, acc string) string {
	if t == nil {
		return acc
	}
	for _, k := range t.Kids {
		acc = walk(k, acc+t.V)
	}
	for _, k := range t.M {
		acc = walk(k, acc)
	}
	return walk(t.Up, acc)
}

func selfapp(r Rec, s string) string {
	if r == nil {
		return s
	}
	return r(r, s)
}

func bytesOf(s string) []byte { return unsafe.Slice(unsafe.StringData(s), len(s)) }
`

func (g *gen) wildStmt() {
	if !g.p.Wild {
		return
	}
	g.feat("wild")
	switch g.intn(12, "wildkind") {
	case 0:
		g.emit("defer func() {")
		g.emit("\tif r := recover(); r != nil {")
		g.emit("\t\tG0 = \"recovered\"")
		g.emit("\t}")
		g.emit("}()")
		g.feat("recover")
	case 1:
		cs := g.callees()
		if len(cs) > 0 {
			f := cs[g.intn(len(cs), "gocallee")]
			g.emit("go %s", g.callExpr(f))
			g.feat("go-call")
		}
	case 2:
		g.emit("go func() {")
		g.indent++
		g.closureDepth++
		g.block(1 + g.intn(2, "gon"))
		g.closureDepth--
		g.indent--
		g.emit("}()")
		g.feat("go-closure")
	case 3:
		if v, ok := g.pickVar(TStr, "unsafev"); ok {
			g.newVar(TPStr, "(*string)(unsafe.Pointer(&"+v.name+"))")
			g.feat("unsafe-pointer")
		}
	case 4:
		g.newVar(TStr, "even(3, "+g.expr(TStr, 1)+")")
		g.feat("mutual-recursion")
	case 5:
		t := g.fresh()
		g.emit("%s := &Tree{V: %s, M: map[string]*Tree{}}; _ = %s", t, g.expr(TStr, 1), t)
		g.emit("%s.Kids = append(%s.Kids, %s, &Tree{V: %s, Up: %s})", t, t, t, g.expr(TStr, 1), t)
		g.emit("%s.M[\"k\"] = %s", t, t)
		g.newVar(TStr, "walk("+t+", \"\")")
		g.feat("recursive-type")
	case 6:
		g.newVar(TStr, "ext("+g.expr(TStr, 1)+")")
		g.feat("bodyless-func")
	case 7:
		s1, s2 := g.fresh(), g.fresh()
		g.emit("%s := &Stack[string]{}; %s := &Stack[*S]{}", s1, s2)
		g.emit("%s.Push(%s); %s.Push(%s)", s1, g.expr(TStr, 1), s2, g.expr(TPS, 1))
		g.newVar(TStr, s1+".Pop()")
		g.newVar(TPS, "ident("+s2+".Pop())")
		g.feat("generic-type")
	case 8:
		if g.off("closure-recursion") {
			return
		}
		r := g.fresh()
		g.emit("var %s Rec = func(rr Rec, ss string) string {", r)
		g.emit("\tif len(ss) > 8 {")
		g.emit("\t\treturn ss")
		g.emit("\t}")
		g.emit("\treturn rr(rr, ss+%s)", g.expr(TStr, 1))
		g.emit("}")
		g.newVar(TStr, "selfapp("+r+", \"\")")
		g.feat("closure-recursion")
	case 9:
		switch g.intn(3, "deferloopk") {
		case 0:
			g.emit("for {")
			g.emit("\tdefer sink1(%d, %s)", g.nextLine()+0, g.expr(TStr, 1))
			g.prog.Sinks[g.nextLine()-1] = "sink1"
			g.emit("\tif cond(%d) {", g.bit())
			g.emit("\t\tbreak")
			g.emit("\t}")
			g.emit("}")
		case 1:
			// two different defer statements in one cycle
			g.emit("for {")
			g.emit("\tdefer sink1(%d, %s)", g.nextLine()+0, g.expr(TStr, 1))
			g.prog.Sinks[g.nextLine()-1] = "sink1"
			g.emit("\tdefer func() { G0 = %s }()", g.expr(TStr, 1))
			g.emit("\tif cond(%d) {", g.bit())
			g.emit("\t\tbreak")
			g.emit("\t}")
			g.emit("}")
			g.feat("two-defers-in-loop")
		default:
			// one defer in an outer loop and one in an inner loop
			i, j := g.fresh(), g.fresh()
			g.emit("for %s := 0; %s < bound(%d); %s++ {", i, i, g.bit(), i)
			g.nbits++
			g.emit("\tdefer func() { G0 = %s }()", g.expr(TStr, 1))
			g.emit("\tfor %s := 0; %s < bound(%d); %s++ {", j, j, g.bit(), j)
			g.nbits++
			g.emit("\t\tdefer sink1(%d, %s)", g.nextLine()+0, g.expr(TStr, 1))
			g.prog.Sinks[g.nextLine()-1] = "sink1"
			g.emit("\t}")
			g.emit("}")
			g.feat("two-defers-in-loop")
		}
		g.feat("defer-in-loop")
	case 10:
		g.newVar(TBytes, "bytesOf("+g.expr(TStr, 1)+")")
		g.feat("unsafe-slice")
	default:
		c := g.fresh()
		g.emit("%s := make(chan *S)", c)
		g.emit("go func() { %s <- %s }()", c, g.expr(TPS, 1))
		g.emit("select {")
		g.emit("case x := <-%s:", c)
		g.emit("\tsink1(%d, x)", g.nextLine())
		g.prog.Sinks[g.nextLine()-1] = "sink1"
		g.emit("case <-make(chan int):")
		g.emit("}")
		g.feat("select-recv")
	}
}

func (g *gen) genSig(i int) *Fn {
	f := &Fn{Name: fmt.Sprintf("f%d", i)}
	np := g.intn(4, "np")
	for k := 0; k < np; k++ {
		f.Params = append(f.Params, g.randType("ptype"))
	}
	nr := []int{0, 1, 1, 1, 2, 3}[g.intn(6, "nr")]
	for k := 0; k < nr; k++ {
		rt := g.randType("rtype")
		if g.p.Off["callee-stores-ref"] {
			// known finding: a reference stored by a callee into a container it returns (or into memory reachable from
			// a parameter) and written through afterwards by the caller is not tracked; results are kept free of
			// nested references
			switch rt {
			case TS, TPS, TE, TLPS, TMPS, TBox, TFunc, TAny:
				g.prog.Excluded++
				rt = []Type{TStr, TSlice, TMap, TPStr}[g.intn(4, "rtype2")]
			}
		}
		f.Results = append(f.Results, rt)
	}
	switch g.intn(8, "recv") {
	case 0:
		f.Recv = TPS
		f.Name = fmt.Sprintf("M%d", i)
	case 1:
		f.Recv = TS
		if g.off("struct-value-copy") {
			f.Recv = TPS
		}
		f.Name = fmt.Sprintf("M%d", i)
	}
	if g.chance(10, "rec") && !g.p.Off["recursion"] {
		f.Rec = true
	}
	return f
}

func (g *gen) genFn(i int) {
	f := g.fns[i]
	g.curFn = i
	g.curName = f.Name
	g.scope = nil
	g.results = f.Results
	g.addGlobalsToScope()
	var ps []string
	if f.Rec {
		ps = append(ps, "d int")
	}
	for k, p := range f.Params {
		n := fmt.Sprintf("p%d", k)
		ps = append(ps, n+" "+string(p))
		g.declare(n, p)
	}
	res := ""
	if len(f.Results) > 0 {
		var rs []string
		for _, r := range f.Results {
			rs = append(rs, string(r))
		}
		res = " (" + strings.Join(rs, ", ") + ")"
	}
	recv := ""
	switch f.Recv {
	case TPS:
		recv = "(r *S) "
		g.declare("r", TPS)
	case TS:
		recv = "(r S) "
		g.declare("r", TS)
	}
	g.emit("func %s%s(%s)%s {", recv, f.Name, strings.Join(ps, ", "), res)
	g.indent++
	if g.p.Enter {
		g.emit("enter(%d)", i+1)
	}
	if g.p.Probes {
		// probe the pointer-like parameters at entry: aliases between the caller's and the callee's values
		for _, v := range g.scope {
			fn := map[Type]string{TPS: "probePS", TPStr: "probeP", TSlice: "probeL", TMap: "probeM"}[v.typ]
			if fn != "" {
				g.nprobe++
				g.emit("%s(%d, %s)", fn, g.nprobe, v.name)
			}
		}
	}
	n := g.p.FnStmts[0] + g.intn(g.p.FnStmts[1]-g.p.FnStmts[0]+1, "fnn")
	g.depth = 1
	saved := len(g.scope)
	for k := 0; k < n; k++ {
		g.stmt()
	}
	if f.Rec {
		g.feat("recursion")
		g.emit("if d > 0 {")
		g.indent++
		args := g.callArgs(f)
		args = append([]string{"d - 1"}, args...)
		call := f.Name + "(" + strings.Join(args, ", ") + ")"
		if f.Recv != "" {
			call = "r." + call
		}
		if len(f.Results) > 0 && g.chance(60, "recret") {
			g.emit("return %s", call)
		} else {
			g.emit("%s", call)
		}
		g.indent--
		g.emit("}")
	}
	g.returnStmt()
	g.scope = g.scope[:saved]
	g.depth = 0
	g.indent--
	g.emit("}")
	g.emit("")
}

func (g *gen) addGlobalsToScope() {
	// globals are used through globalStmt only, so that every global access is an explicit statement
}

// Generate draws a program.
func Generate(t *rapid.T, p *Profile) *Program {
	g := &gen{t: t, p: p, prog: &Program{Sources: map[int]string{}, Sinks: map[int]string{}, SrcFunc: map[int]string{},
		SinkFunc: map[int]string{}, Direct: map[[2]int]bool{}, Feats: map[string]bool{}}, directSrc: map[string]int{}}
	g.emit("package main")
	g.emit("")
	if p.Wild {
		for _, l := range strings.Split(strings.TrimRight(WildDecls, "\n"), "\n") {
			g.lines = append(g.lines, l)
		}
		g.emit("")
	}
	decls := Decls
	if p.Enter {
		decls = DeclsWithEnter()
	}
	for _, l := range strings.Split(strings.TrimRight(decls, "\n"), "\n") {
		g.lines = append(g.lines, l)
	}
	g.emit("")
	for _, l := range strings.Split(strings.TrimRight(globalsDecl, "\n"), "\n") {
		g.lines = append(g.lines, l)
	}
	g.emit("")
	nf := g.intn(p.MaxHelpers+1, "nhelpers")
	g.curFn = -1
	for i := 0; i < nf; i++ {
		g.fns = append(g.fns, g.genSig(i))
	}
	for i := nf - 1; i >= 0; i-- {
		g.genFn(i)
	}
	// package initialiser (sometimes)
	if g.chance(4, "init") && !p.Off["init"] {
		g.curFn = -1
		g.curName = "init"
		g.scope = nil
		g.results = nil
		g.feat("init-func")
		g.emit("func init() {")
		g.indent++
		if g.p.Enter {
			g.emit("enter(0)")
		}
		g.depth = 1
		for k := 0; k < 1+g.intn(3, "initn"); k++ {
			g.stmt()
		}
		g.depth = 0
		g.indent--
		g.emit("}")
		g.emit("")
	}
	g.curFn = -1
	g.curName = "main"
	g.scope = nil
	g.results = nil
	g.emit("func main() {")
	g.indent++
	if g.p.Enter {
		g.emit("enter(%d)", 999)
	}
	n := p.MainStmts[0] + g.intn(p.MainStmts[1]-p.MainStmts[0]+1, "mainn")
	g.depth = 1
	for k := 0; k < n; k++ {
		g.stmt()
	}
	// a writer and a reader of a global that are not otherwise on any data path (they have no parameters and no
	// results): the flow exists only through the global
	type gpair struct{ write, read string }
	var extra []string
	if g.chance(30, "globalpair") && !p.Off["global-pair"] {
		pairs := []gpair{{"GS = *source2(%d)", "GS.A"}, {"G0 = source1(%d)", "G0"}, {"GP = source2(%d)", "GP.A"}, {"GL = source3(%d)", "GL[0]"},
			{"GX = source4(%d)", "GX"}, {"GS = *source2(%d)", "GS"}, {"GL = source3(%d)", "GL"}}
		k := g.intn(len(pairs), "gpairkind")
		gp := pairs[k]
		g.emit("gwriter()")
		extra = []string{gp.write, gp.read, ""}
		// variant: the reader stores the global through its pointer parameter and its caller (which handles no other
		// data) passes the filled variable to the sink: the flow reaches the parameter without a calling context
		if k < 4 && g.chance(50, "globalfill") {
			g.emit("gcaller()")
			g.feat("global-read-stored-through-param")
			extra[2] = "fill"
		} else {
			g.emit("greader()")
		}
		g.feat("global-writer-reader-pair")
	}
	// a get-and-set function on a global, called at two sites: the value stored by the first call is what the second
	// call returns (the reader and the writer of the global are the same function)
	swap := false
	if g.chance(12, "globalswap") && !p.Off["global-pair"] {
		swap = true
		l1 := g.nextLine()
		g.emit("sw1 := source1(%d)", l1)
		g.prog.Sources[l1] = "source1"
		g.prog.SrcFunc[l1] = "main"
		g.emit("gswap(sw1)")
		g.emit("sw2 := gswap(\"swc\")")
		l2 := g.nextLine()
		g.emit("sink1(%d, sw2)", l2)
		g.prog.Sinks[l2] = "sink1"
		g.prog.SinkFunc[l2] = "main"
		g.feat("global-swap-function")
	}
	if p.Go {
		g.emit("waitall()")
	}
	// closing sinks: make sure data that was moved around has a chance to be observed
	for k := 0; k < 2; k++ {
		g.sinkStmt()
	}
	g.indent--
	g.emit("}")
	if extra != nil {
		g.emit("")
		g.emit("func gwriter() {")
		if g.p.Enter {
			g.emit("\tenter(997)")
		}
		wl := g.nextLine()
		g.emit("\t"+extra[0], wl)
		g.prog.Sources[wl] = "source"
		g.prog.SrcFunc[wl] = "gwriter"
		g.emit("}")
		g.emit("")
		if extra[2] == "fill" {
			g.emit("func gfill(p *string) {")
			if g.p.Enter {
				g.emit("\tenter(998)")
			}
			g.emit("\t*p = %s", extra[1])
			g.emit("}")
			g.emit("")
			g.emit("func gcaller() {")
			if g.p.Enter {
				g.emit("\tenter(996)")
			}
			g.emit("\tvar x string")
			g.emit("\tgfill(&x)")
			rl := g.nextLine()
			g.emit("\tsink1(%d, x)", rl)
			g.prog.Sinks[rl] = "sink1"
			g.prog.SinkFunc[rl] = "gcaller"
			g.emit("}")
		} else {
			g.emit("func greader() {")
			if g.p.Enter {
				g.emit("\tenter(998)")
			}
			rl := g.nextLine()
			g.emit("\tsink1(%d, %s)", rl, extra[1])
			g.prog.Sinks[rl] = "sink1"
			g.prog.SinkFunc[rl] = "greader"
			g.emit("}")
		}
	}
	if swap {
		g.emit("")
		g.emit("func gswap(v string) string {")
		if g.p.Enter {
			g.emit("\tenter(995)")
		}
		g.emit("\tprev := GW")
		g.emit("\tGW = v")
		g.emit("\treturn prev")
		g.emit("}")
	}
	g.prog.Main = strings.Join(g.lines, "\n") + "\n"
	g.prog.NBits = g.nbits
	if g.prog.NBits > 12 {
		g.prog.NBits = 12
	}
	return g.prog
}

// AnalysedPrelude is the prelude.go the tool sees: trivial oracle functions.
const AnalysedPrelude = `package main

var opaque [16]bool

func cond(i int) bool { return opaque[i&15] }

func bound(i int) int {
	n := 0
	if opaque[i&15] {
		n++
	}
	if opaque[(i+1)&15] {
		n++
	}
	return n
}

func sel(i int) int { return bound(i) }

func enter(id int) {}

func source1(line int) string { return "src" }

func source2(line int) *S { return &S{A: "src", P: new(string), L: []string{"src", ""}, M: map[string]string{"k": "src"}} }

func source3(line int) []string { return []string{"src", "src"} }

func source4(line int) any { return "src" }

func sink1(line int, x any) {}

func sink2(line int, s string) {}

func sink3(line int, x any, y any) {}

func sink4(line int, xs ...any) {}

func sanitize1(x string) string { return x }

func validate1(bit int, x string) bool { return opaque[bit&15] }

type verr struct{}

func (verr) Error() string { return "invalid" }

func validateE(bit int, x string) error {
	if opaque[bit&15] {
		return nil
	}
	return verr{}
}

func validateT(bit int, wbit int, x string) (bool, error) {
	if opaque[bit&15] {
		return opaque[wbit&15], nil
	}
	return opaque[wbit&15], verr{}
}

func gstart() {}

func gdone() {}

func waitall() {}

func yield() {}

func probePS(id int, p *S) {}

func probeP(id int, p *string) {}

func probeL(id int, l []string) {}

func probeM(id int, m map[string]string) {}
`

// NativePrelude returns prelude.go of the native rendering (package pkg, runtime in module path rtPath).
func NativePrelude(pkg string, rtPath string) string {
	return `package ` + pkg + `

import (
	"unsafe"

	rt "` + rtPath + `"
)

func cond(i int) bool { return rt.Cond(i) }

func bound(i int) int { return rt.Bound(i) }

func sel(i int) int { return rt.Bound(i) }

func enter(id int) { rt.Enter(id) }

func source1(line int) string { return rt.Marker(line) }

func source2(line int) *S {
	p := new(string)
	*p = rt.Marker(line)
	return &S{A: rt.Marker(line), P: p, L: []string{rt.Marker(line), ""}, M: map[string]string{"k": rt.Marker(line)}}
}

func source3(line int) []string { return []string{rt.Marker(line), rt.Marker(line)} }

func source4(line int) any { return rt.Marker(line) }

func sink1(line int, x any) { rt.Sink(line, x) }

func sink2(line int, s string) { rt.Sink(line, s) }

func sink3(line int, x any, y any) { rt.Sink(line, x, y) }

func sink4(line int, xs ...any) { rt.Sink(line, xs...) }

func sanitize1(x string) string { return rt.Sanitize(x) }

func validate1(bit int, x string) bool { return rt.Validate(bit, x) }

type verr struct{}

func (verr) Error() string { return "invalid" }

func validateE(bit int, x string) error {
	if rt.Validate(bit, x) {
		return nil
	}
	return verr{}
}

func validateT(bit int, wbit int, x string) (bool, error) {
	w := rt.Cond(wbit)
	if rt.Validate(bit, x) {
		return w, nil
	}
	return w, verr{}
}

func gstart() { rt.GStart() }

func gdone() { rt.GDone() }

func waitall() { rt.WaitAll() }

func yield() { rt.Yield() }

func probePS(id int, p *S) { rt.Probe(id, 0, unsafe.Pointer(p), unsafe.Sizeof(*p)) }

func probeP(id int, p *string) { rt.Probe(id, 1, unsafe.Pointer(p), unsafe.Sizeof(*p)) }

func probeL(id int, l []string) {
	if cap(l) > 0 {
		rt.Probe(id, 2, unsafe.Pointer(unsafe.SliceData(l)), uintptr(cap(l))*unsafe.Sizeof(""))
	}
}

func probeM(id int, m map[string]string) {
	if m != nil {
		rt.Probe(id, 3, *(*unsafe.Pointer)(unsafe.Pointer(&m)), 8)
	}
}

// Run executes the program once (package-level variables are first reset to their initial values, so that several
// executions in one process do not see each other's data).
func Run() {
	G0 = ""
	GP = newS("")
	GS = S{P: new(string), L: make([]string, 2), M: map[string]string{}}
	GL = make([]string, 2)
	GM = map[string]string{}
	GA = [2]string{}
	GF = idf
	GX = nil
	GPP = new(string)
	main()
}
`
}

package core

import (
	"fmt"
	"runtime/debug"
	"time"

	"github.com/awslabs/ar-go-tools/analysis/backtrace"
	"github.com/awslabs/ar-go-tools/analysis/config"
	"github.com/awslabs/ar-go-tools/analysis/dataflow"
	"github.com/awslabs/ar-go-tools/analysis/defers"
	"github.com/awslabs/ar-go-tools/analysis/escape"
	"github.com/awslabs/ar-go-tools/analysis/maypanic"
	"github.com/awslabs/ar-go-tools/analysis/reachability"
	"github.com/awslabs/ar-go-tools/analysis/taint"
	"golang.org/x/tools/go/ssa/ssautil"
)

// StepResult is the outcome of one analysis entry point.
type StepResult struct {
	Step    string  `json:"step"`
	Panic   string  `json:"panic,omitempty"`
	Err     string  `json:"err,omitempty"`
	Seconds float64 `json:"seconds"`
	Info    string  `json:"info,omitempty"`
}

func step(name string, f func() (string, error)) StepResult {
	r := StepResult{Step: name}
	t0 := time.Now()
	func() {
		defer func() {
			if p := recover(); p != nil {
				r.Panic = fmt.Sprintf("%v\n%s", p, debug.Stack())
			}
		}()
		info, err := f()
		r.Info = info
		if err != nil {
			r.Err = err.Error()
		}
	}()
	r.Seconds = time.Since(t0).Seconds()
	return r
}

// BacktraceYAML is a slicing problem whose backtrace points are the sink* functions.
func BacktraceYAML(onDemand bool) string {
	s := "options:\n    log-level: 1\n"
	if onDemand {
		s += "    summarize-on-demand: true\n"
	}
	s += "slicing-problems:\n  -\n    backtracepoints:\n      - method: \"^sink[0-9]*$\"\n"
	return s
}

// RunAllAnalyses runs every analysis entry point of the toolkit on the program, each under recover (C07).
func RunAllAnalyses(files map[string]string, only string) []StepResult {
	var out []StepResult
	load := func() *Loaded {
		l, err := LoadSource(files)
		if err != nil {
			panic("HARNESS load: " + err.Error())
		}
		return l
	}
	want := func(s string) bool { return only == "" || only == s }
	for _, v := range []struct {
		name string
		o    TaintOpts
	}{
		{"taint-eager", TaintOpts{Sanitizers: []string{"^sanitize1$"}, Validators: []string{"^validate1$", "^validateE$", "^validateT$"}}},
		{"taint-ondemand", TaintOpts{OnDemand: true}},
		{"taint-escape", TaintOpts{UseEscape: true}},
		{"taint-fieldsens", TaintOpts{FieldSensitive: true}},
	} {
		if !want(v.name) {
			continue
		}
		v := v
		out = append(out, step(v.name, func() (string, error) {
			l := load()
			res, err := taint.Analyze(MustConfig(v.o.YAML()), l.Prog, nil)
			n := 0
			if res.TaintFlows != nil {
				n = len(res.TaintFlows.Sinks)
			}
			return fmt.Sprintf("%d sinks", n), err
		}))
	}
	for _, od := range []bool{false, true} {
		name := "backtrace-eager"
		if od {
			name = "backtrace-ondemand"
		}
		if !want(name) {
			continue
		}
		od := od
		out = append(out, step(name, func() (string, error) {
			l := load()
			cfg := MustConfig(BacktraceYAML(od))
			res, err := backtrace.Analyze(config.NewLogGroup(cfg), cfg, l.Prog, nil)
			return fmt.Sprintf("%d entries", len(res.Traces)), err
		}))
	}
	if want("escape") {
		out = append(out, step("escape", func() (string, error) {
			l := load()
			cfg := MustConfig(TaintOpts{UseEscape: true}.YAML())
			state, err := dataflow.NewInitializedAnalyzerState(l.Prog, nil, config.NewLogGroup(cfg), cfg)
			if err != nil {
				return "", err
			}
			return "", escape.InitializeEscapeAnalysisState(state)
		}))
	}
	if want("reachability") {
		out = append(out, step("reachability", func() (string, error) {
			l := load()
			cfg := MustConfig(TaintOpts{}.YAML())
			state, err := dataflow.NewAnalyzerState(l.Prog, nil, config.NewLogGroup(cfg), cfg, []func(*dataflow.AnalyzerState){})
			if err != nil {
				return "", err
			}
			n := 0
			for _, m := range []bool{false, true} {
				for _, i := range []bool{false, true} {
					n += len(reachability.FindReachable(state, m, i, nil))
				}
			}
			return fmt.Sprintf("%d reachable (4 selections)", n), nil
		}))
	}
	if want("defers") {
		out = append(out, step("defers", func() (string, error) {
			l := load()
			lg := config.NewLogGroup(config.NewDefault())
			n := 0
			for f := range ssautil.AllFunctions(l.Prog) {
				r := defers.AnalyzeFunction(f, lg)
				if !r.DeferStackBounded {
					n++
				}
			}
			return fmt.Sprintf("%d unbounded", n), nil
		}))
	}
	if want("maypanic") {
		out = append(out, step("maypanic", func() (string, error) {
			l := load()
			maypanic.MayPanicAnalyzer(l.Prog, nil, true)
			return "", nil
		}))
	}
	return out
}

package main

import "example.com/m/pkg/alpha"

func Get() string      { return "mg" }
func getData2() string { return "md" }
func Put(s string)     {}
func putData2(s string) {}
func sourceP() string  { return "s" }

func sinkP0(x string) {}
func sinkP1(x string) {}
func sinkP2(x string) {}
func sinkP3(x string) {}
func sinkP4(x string) {}
func sinkP5(x string) {}
func sinkP6(x string) {}
func sinkP7(x string) {}
func sinkP8(x string) {}
func sinkP9(x string) {}

var flag bool

func helperA() {
	v3 := Get()
	sinkP3(v3)
	func() {
		v7 := alpha.GetData()
		sinkP7(v7)
	}()
}

func main() {
	v0 := getData2()
	sinkP0(v0)
	m1 := alpha.T{V: "x"}.Get
	v1 := m1()
	sinkP1(v1)
	v2 := alpha.Fetch()
	sinkP2(v2)
	var i4 alpha.I = alpha.U{V: "x"}
	if flag {
		i4 = &alpha.W{V: "y"}
	}
	v4 := i4.Get()
	sinkP4(v4)
	m5 := alpha.T{V: "x"}.Get
	v5 := m5()
	sinkP5(v5)
	m6 := alpha.T{V: "x"}.Get
	v6 := m6()
	sinkP6(v6)
	helperA()
}

package main

type S struct {
	A string
	B string
	P *string
	L []string
	M map[string]string
	N *S
	F func(string) string
	X any
	I Box
}

type E struct {
	S
	Z string
}

type Name string

type Box interface {
	Get() string
	Put(s string)
	peek() string
}

type BoxA struct{ v string }

func (b *BoxA) Get() string  { return b.v }
func (b *BoxA) Put(s string) { b.v = s }
func (b *BoxA) peek() string { return b.v }

type BoxB struct{ l []string }

func (b *BoxB) Get() string {
	if len(b.l) > 0 {
		return b.l[len(b.l)-1]
	}
	return ""
}
func (b *BoxB) Put(s string) { b.l = append(b.l, s) }
func (b *BoxB) peek() string { return b.Get() }

type BoxC struct{ p *string }

func (b BoxC) Get() string  { return *b.p }
func (b BoxC) Put(s string) { *b.p = s }
func (b BoxC) peek() string { return *b.p }

type BoxD struct {
	f func(string) string
	v string
}

func (b BoxD) Get() string  { return b.f(b.v) }
func (b BoxD) Put(s string) { sinkhole = b.f(s) }
func (b BoxD) peek() string { return b.f(b.v) }

var sinkhole string

func (s *S) GetA() string   { return s.A }
func (s *S) SetA(x string)  { s.A = x }
func (s S) CopyB() string   { return s.B }
func (s *S) Self() *S       { return s }
func (s *S) Both() (string, string) { return s.A, s.B }

func idf(x string) string   { return x }
func dropf(x string) string { return "dropped" }

func ident[T any](x T) T { return x }

func pair[T any, U any](x T, y U) (U, T) { return y, x }

func vcat(xs ...string) string {
	r := ""
	for _, x := range xs {
		r += x
	}
	return r
}

func newS(a string) *S {
	return &S{A: a, P: new(string), L: make([]string, 2), M: map[string]string{}}
}

var G0 string
var GP = newS("")
var GS = S{P: new(string), L: make([]string, 2), M: map[string]string{}}
var GL = make([]string, 2)
var GM = map[string]string{}
var GA [2]string
var GF func(string) string = idf
var GX any
var GPP = new(string)
func f4(d int, p0 *string, p1 string) {
	v4 := source1(97); _ = v4
	v5 := [2]string{v4, v4}; _ = v5
	v6 := func(y string) func(string) string {
		return func(x string) string { return x + y + v4 }
	}
	var v7 func(string) string = v6(v5[1]); _ = v7
		f4(d - 1, &v4, v5[0])
}
func (r *S) M3(d int, p0 S, p1 string) (string, string, []*S) {
	v8 := vcat(r.L...); _ = v8
		v9 := func() {
			f4(2, r.P, v8)
		}
		v9()
	switch sel(2) {
	case 1:
		sink1(113, p1)
		return r.M3(d - 1, *r, max(v8, v8, v8))
	}
	return v8, v8, []*S{r}
}
func f2(d int) {
	var v12 func(string) string = dropf; _ = v12
	v17, v18, v19 := (&S{A: "c15", P: new(string), L: make([]string, 2), M: map[string]string{}, B: "c16", F: v12}).M3(2, S{A: "c13", P: new(string), L: make([]string, 2), M: map[string]string{}}, "c14"); _, _, _ = v17, v18, v19
}
func main() {
	defer f2(2)
}

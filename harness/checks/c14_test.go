package checks

import (
	"fmt"
	"go/token"
	"go/types"
	"os"
	"regexp"
	"sort"
	"strconv"
	"strings"
	"testing"

	"github.com/awslabs/ar-go-tools/analysis/config"
	"github.com/awslabs/ar-go-tools/analysis/dataflow"
	"github.com/awslabs/ar-go-tools/analysis/escape"
	"github.com/awslabs/ar-go-tools/verifharness/core"
	"github.com/awslabs/ar-go-tools/verifharness/gogen"
	"github.com/awslabs/ar-go-tools/verifharness/native"
	"golang.org/x/tools/go/ssa"
	"golang.org/x/tools/go/ssa/ssautil"
	"pgregory.net/rapid"
)

// C14: an instruction classified as thread-local never touches shared memory. Ground truth: Go's race detector (no
// false positives) on native runs of concurrent programs; the later access of a race report, when it is a WRITE, must
// not be a write instruction that the escape analysis claims local in every context it derives for the enclosing function.

var raceBlockRe = regexp.MustCompile(`(?m)^(Previous )?([Ww]rite|[Rr]ead) at 0x[0-9a-f]+ by [^\n]*:\n((?:  [^\n]*\n      [^\n]*\n)+)`)
var frameLineRe = regexp.MustCompile(`_?main\.go:(\d+)`)

// raceLines extracts, from race-detector output, the lines of main.go at which the LATER access of a report happened,
// separately for writes and reads.
func raceLines(stderr string) (writes, reads map[int]bool, reports int) {
	writes, reads = map[int]bool{}, map[int]bool{}
	reports = strings.Count(stderr, "WARNING: DATA RACE")
	for _, m := range raceBlockRe.FindAllStringSubmatch(stderr, -1) {
		// Only the LATER access of a report is judged: when it happened, another goroutine had already accessed the same
		// memory, so the memory was reachable from that goroutine before the access. The earlier access ("Previous write")
		// may have happened while the object was still unpublished (initialisation followed by an unsynchronised
		// publication): the detector reports it, but the access was local when it happened.
		if m[1] != "" {
			continue
		}
		isWrite := strings.EqualFold(m[2], "write")
		fl := strings.Split(m[3], "\n")
		// frames come in pairs: function, then file:line
		for k := 0; k+1 < len(fl); k += 2 {
			fn, loc := strings.TrimSpace(fl[k]), fl[k+1]
			if !strings.Contains(loc, "main.go:") || strings.Contains(loc, "/cmd/") {
				// a frame of the runtime above the program's frame: the access is made by the runtime on behalf of an
				// operation of that line. Accepted for writes (map assignment, struct copies); for reads only map access.
				if !isWrite && !strings.HasPrefix(fn, "runtime.mapaccess") {
					break
				}
				continue
			}
			if mm := frameLineRe.FindStringSubmatch(loc); mm != nil {
				n, _ := strconv.Atoi(mm[1])
				if isWrite {
					writes[n] = true
				} else {
					reads[n] = true
				}
			}
			break
		}
	}
	return
}

func isWriteInstr(i ssa.Instruction) bool {
	switch i.(type) {
	case *ssa.Store, *ssa.MapUpdate, *ssa.Send:
		return true
	}
	return false
}

// isReadInstr: memory loads and map lookups (the instructions that read shared memory and carry a source position).
func isReadInstr(i ssa.Instruction) bool {
	switch x := i.(type) {
	case *ssa.UnOp:
		return x.Op == token.MUL
	case *ssa.Lookup:
		_, isMap := x.X.Type().Underlying().(*types.Map)
		return isMap
	}
	return false
}

// opaqueOnLine: instructions that access memory without being classified individually (builtins such as append, copy,
// delete; conversions between strings and slices): a line that carries one is not judged.
func opaqueInstr(i ssa.Instruction) bool {
	switch x := i.(type) {
	case *ssa.Call:
		_, isBuiltin := x.Call.Value.(*ssa.Builtin)
		return isBuiltin
	case *ssa.Defer:
		_, isBuiltin := x.Call.Value.(*ssa.Builtin)
		return isBuiltin
	case *ssa.Go:
		_, isBuiltin := x.Call.Value.(*ssa.Builtin)
		return isBuiltin
	case *ssa.Convert:
		_, fromSlice := x.X.Type().Underlying().(*types.Slice)
		_, toSlice := x.Type().Underlying().(*types.Slice)
		return fromSlice || toSlice
	case *ssa.Range, *ssa.Next, *ssa.Select:
		return true
	}
	return false
}

// c14Claims computes, with the public escape-analysis interface, the write instructions claimed local: roots are
// main, init and every function launched by a go statement (arbitrary context); contexts are propagated to callees
// through the call-site information and merged per function until nothing changes.
var c14Debug bool

func c14Claims(l *core.Loaded) (claimed map[ssa.Instruction]bool, judged map[ssa.Instruction]bool, msg string) {
	cfg := core.MustConfig(core.TaintOpts{UseEscape: true}.YAML())
	state, err := dataflow.NewInitializedAnalyzerState(l.Prog, nil, config.NewLogGroup(cfg), cfg)
	if err != nil {
		return nil, nil, ""
	}
	if err := escape.InitializeEscapeAnalysisState(state); err != nil || state.EscapeAnalysisState == nil {
		return nil, nil, ""
	}
	eas := state.EscapeAnalysisState
	ctxs := map[*ssa.Function]dataflow.EscapeCallContext{}
	var work []*ssa.Function
	addRoot := func(f *ssa.Function) {
		if f == nil || len(f.Blocks) == 0 || !eas.IsSummarized(f) {
			return
		}
		c := eas.ComputeArbitraryContext(f)
		if c14Debug {
			fmt.Printf("root %s\n", f)
		}
		if old, ok := ctxs[f]; ok {
			changed, merged := old.Merge(c)
			if !changed {
				return
			}
			c = merged
		}
		ctxs[f] = c
		work = append(work, f)
	}
	all := ssautil.AllFunctions(l.Prog)
	for f := range all {
		if f.Pkg != nil && f.Pkg.Pkg.Name() == "main" && (f.Name() == "main" || f.Name() == "init") && f.Parent() == nil {
			addRoot(f)
		}
		for _, b := range f.Blocks {
			for _, ins := range b.Instrs {
				switch x := ins.(type) {
				case *ssa.Go:
					if cs, err := state.ResolveCallee(x, false); err == nil {
						for c := range cs {
							addRoot(c)
						}
					}
				case *ssa.Defer:
					// call-site information exists only for *ssa.Call: deferred callees get the arbitrary context
					if cs, err := state.ResolveCallee(x, false); err == nil {
						for c := range cs {
							addRoot(c)
						}
					}
				case *ssa.Call:
					// a caller without escape summary (synthetic wrappers such as bound-method closures, functions
					// outside the summarised set) derives no call-site context: as in the taint client
					// (storeEscapeGraph), its callees get the arbitrary context
					if !eas.IsSummarized(f) {
						if cs, err := state.ResolveCallee(x, false); err == nil {
							for c := range cs {
								addRoot(c)
							}
						}
					}
				}
			}
		}
	}
	locality := map[*ssa.Function]map[ssa.Instruction]*dataflow.EscapeRationale{}
	for steps := 0; len(work) > 0 && steps < 5000; steps++ {
		f := work[len(work)-1]
		work = work[:len(work)-1]
		loc, sites := eas.ComputeInstructionLocalityAndCallsites(f, ctxs[f])
		locality[f] = loc
		// calls of f for which no call-site information exists: arbitrary context for the callees
		for _, b := range f.Blocks {
			for _, ins := range b.Instrs {
				if call, ok := ins.(*ssa.Call); ok && sites[call] == nil {
					if cs, err := state.ResolveCallee(call, false); err == nil {
						for c := range cs {
							addRoot(c)
						}
					}
				}
			}
		}
		for call, info := range sites {
			cs, err := state.ResolveCallee(call, false)
			if err != nil {
				continue
			}
			for callee := range cs {
				if callee == nil || len(callee.Blocks) == 0 || !eas.IsSummarized(callee) {
					continue
				}
				nc := info.Resolve(callee)
				if c14Debug {
					fmt.Printf("ctx %s -> %s (%s)\n", f, callee, call)
				}
				if nc == nil {
					continue
				}
				if old, ok := ctxs[callee]; ok {
					changed, merged := old.Merge(nc)
					if !changed {
						continue
					}
					ctxs[callee] = merged
				} else {
					ctxs[callee] = nc
				}
				work = append(work, callee)
			}
		}
	}
	claimed, judged = map[ssa.Instruction]bool{}, map[ssa.Instruction]bool{}
	for _, loc := range locality {
		for ins, rat := range loc {
			if !isWriteInstr(ins) && !isReadInstr(ins) {
				continue
			}
			judged[ins] = true
			if rat == nil {
				claimed[ins] = true
			}
		}
	}
	return claimed, judged, ""
}

type c14Stats struct {
	races, racyWriteLines, racyReadLines, judgedLines, claimedLocalWrites, claimedLocalReads, sharedWrites int
}

func c14Judge(files map[string]string, res *native.Result) (string, c14Stats, error) {
	var st c14Stats
	writes, reads := map[int]bool{}, map[int]bool{}
	for _, r := range res.Runs {
		w, rd, n := raceLines(r.Stderr)
		st.races += n
		for l := range w {
			writes[l] = true
		}
		for l := range rd {
			reads[l] = true
		}
	}
	st.racyWriteLines = len(writes)
	st.racyReadLines = len(reads)
	l, err := core.LoadSource(files)
	if err != nil {
		return "", st, err
	}
	var claimed, judged map[ssa.Instruction]bool
	var pan string
	func() {
		defer func() {
			if r := recover(); r != nil {
				pan = fmt.Sprint(r)
			}
		}()
		claimed, judged, _ = c14Claims(l)
	}()
	if pan != "" || judged == nil {
		return "", st, nil // crashes / loud failures are not this property's subject
	}
	for ins := range judged {
		if isWriteInstr(ins) {
			if claimed[ins] {
				st.claimedLocalWrites++
			} else {
				st.sharedWrites++
			}
		} else if claimed[ins] {
			st.claimedLocalReads++
		}
	}
	// A race report names a line, not an instruction. A line is judged for one kind of access (write / read) only if
	//  - every instruction of that kind on it, in any function (e.g. a closure literal on the same line), was
	//    classified in some context;
	//  - it carries no instruction that accesses memory without being classified individually (builtins, conversions
	//    between strings and slices, range/next/select);
	//  - for reads: no function with code on that line contains a load without source position (such a load could be
	//    the racing one: range loops over slices, named results).
	type lineInfo struct {
		all    map[bool][]ssa.Instruction // isWrite -> instructions of that kind
		opaque bool
		funcs  map[*ssa.Function]bool
	}
	info := map[int]*lineInfo{}
	noPosLoad := map[*ssa.Function]bool{}
	for f := range ssautil.AllFunctions(l.Prog) {
		for _, b := range f.Blocks {
			for _, ins := range b.Instrs {
				ln := lineOf(l.Prog, ins)
				if ln <= 0 {
					if isReadInstr(ins) && ins.Pos() == token.NoPos {
						noPosLoad[f] = true
					}
					continue
				}
				li := info[ln]
				if li == nil {
					li = &lineInfo{all: map[bool][]ssa.Instruction{}, funcs: map[*ssa.Function]bool{}}
					info[ln] = li
				}
				li.funcs[f] = true
				if opaqueInstr(ins) {
					li.opaque = true
				}
				if isWriteInstr(ins) {
					li.all[true] = append(li.all[true], ins)
				} else if isReadInstr(ins) {
					li.all[false] = append(li.all[false], ins)
				}
			}
		}
	}
	judgeLine := func(ln int, isWrite bool) string {
		li := info[ln]
		if li == nil || li.opaque || len(li.all[isWrite]) == 0 {
			return ""
		}
		if !isWrite {
			for f := range li.funcs {
				if noPosLoad[f] {
					return ""
				}
			}
		}
		for _, ins := range li.all[isWrite] {
			if !judged[ins] {
				return "" // a function without derived context
			}
		}
		st.judgedLines++
		for _, ins := range li.all[isWrite] {
			if !claimed[ins] {
				return ""
			}
		}
		kind := "read"
		if isWrite {
			kind = "write"
		}
		return fmt.Sprintf("the race detector reported a data race whose later access is a %s on line %d (another goroutine had accessed that memory before), but every %s instruction on that line (%s) is classified thread-local in the contexts derived for its function", kind, ln, kind, li.all[isWrite][0])
	}
	for _, isWrite := range []bool{true, false} {
		set := reads
		if isWrite {
			set = writes
		}
		var lines []int
		for ln := range set {
			lines = append(lines, ln)
		}
		sort.Ints(lines)
		for _, ln := range lines {
			if msg := judgeLine(ln, isWrite); msg != "" {
				return msg, st, nil
			}
		}
	}
	return "", st, nil
}

func TestC14(t *testing.T) {
	rec := core.NewRecorder("C14", env, "cases = concurrent programs (goroutines sharing captured variables, arguments, globals, maps, slices, "+
		"struct fields, channels; loops whose header reads memory that the body shares; no synchronisation of individual accesses) built "+
		"natively with -race and run under GOMAXPROCS {2,8}; static side through the public EscapeAnalysisState interface: arbitrary contexts "+
		"for main, init, go-callees, deferred callees and callees of unsummarised functions, call-site contexts propagated and merged per "+
		"function to a fixpoint; oracle: a line on which the race detector reports a WRITE (or READ) as the LATER access of a race (another "+
		"goroutine had accessed that memory before) must not consist only of write (read) instructions claimed local; lines with builtins, "+
		"string/slice conversions, range/select or, for reads, functions with position-less loads are not judged; non-trivial = >= 1 race "+
		"report on a judged line and >= 1 write instruction claimed local in the same program; distinct = hash(program, valuations)")
	rec.Assumptions = []string{"Go's race detector has no false positives; it only sees races of interleavings that occur",
		"the earlier access of a report is not judged (it may precede an unsynchronised publication)",
		"a report names a line: the line is judged only if every instruction of the reported kind on it was classified and all are claimed local",
		"contexts are merged per function: an instruction local under the merged context is local under each contributing context (monotonicity)"}
	defer rec.Flush()
	replayKnown(t, "C14")
	off := excluded()
	nv := 2
	if env.Thorough() {
		nv = 4
	}
	tp := &twoPass{id: "C14", salt: 14, checks: env.Pick(200, 1000), rec: rec,
		gen: func(t *rapid.T) *flowCase { return genFlowCase(t, gogen.ConcurrentProfile(off), nv) },
		unit: func(c *flowCase) native.Unit {
			u := c.unit()
			u.GoMaxProcs = []int{2, 8}
			return u
		},
		judge: func(rt *rapid.T, c *flowCase, res *native.Result) {
			msg, st, err := c14Judge(c.files(), res)
			if err != nil {
				rt.Fatalf("HARNESS: %v", err)
			}
			rec.Case(c.Key, st.judgedLines >= 1 && st.claimedLocalWrites >= 1, c.Prog.FeatList(), func() any {
				return map[string]any{"program_from_first_function": core.Truncate(afterDecls(c.Prog.Main), 50), "race_reports": st.races,
					"racy_write_lines": st.racyWriteLines, "racy_read_lines": st.racyReadLines, "reads_claimed_local": st.claimedLocalReads, "judged_lines": st.judgedLines, "writes_claimed_local": st.claimedLocalWrites, "writes_classified_shared": st.sharedWrites}
			})
			rec.Count("race_reports", st.races)
			rec.Count("racy_write_lines_judged", st.judgedLines)
			if msg != "" {
				m := env.Report(core.Violation{ID: "C14", Signature: "local-write-races", What: msg, Files: dynReplayFiles(c), Kind: "c14"})
				rt.Fatalf("%s", m)
			}
		}, opt: native.Options{Race: true, Env: []string{"GORACE=halt_on_error=0"}}}
	tp.run(t)
}

func init() {
	replayers["c14"] = func(dir string) string {
		return dynReplayOpt(dir, native.Options{Workers: 4, Race: true, Env: []string{"GORACE=halt_on_error=0"}}, []int{2, 8}, 3,
			func(files map[string]string, res *native.Result) string {
				msg, _, err := c14Judge(files, res)
				if err != nil {
					return "HARNESS: " + err.Error()
				}
				if os.Getenv("VERIF_DEBUG") != "" {
					for _, r := range res.Runs {
						fmt.Println(r.Stderr)
					}
				}
				return msg
			})
	}
}

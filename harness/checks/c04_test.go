package checks

import (
	"encoding/json"
	"fmt"
	"os"
	"path/filepath"
	"regexp"
	"sort"
	"strings"
	"testing"

	"github.com/awslabs/ar-go-tools/analysis/config"
	"github.com/awslabs/ar-go-tools/verifharness/core"
	"github.com/awslabs/ar-go-tools/verifharness/gogen"
	"pgregory.net/rapid"
)

// C04: every code location matching a specification is identified, and only those. Two-package module loaded from
// disk through analysis.LoadProgram; reference model = Go's regexp over the (package path, name, context) of every
// function that can be called at a probe site.

const c04Alpha = `package alpha

type T struct{ V string }

func Get() string        { return "g" }
func GetData() string    { return "gd" }
func Fetch() string      { return "f" }
func Put(s string)       {}
func PutData(s string)   {}
func Store(s string)     {}
func PutTag(tag, s string) {}

func (t T) Get() string       { return t.V }
func (t *T) GetData() string  { return t.V }
func (t T) Put(s string)      {}
func (t *T) PutData(s string) { t.V = s }

type I interface {
	Get() string
	Put(s string)
	PutTag(tag, s string)
}

type U struct{ V string }

func (u U) Get() string  { return u.V }
func (u U) Put(s string) {}
func (u U) PutTag(tag, s string) {}

type W struct{ V string }

func (w *W) Get() string  { return w.V }
func (w *W) Put(s string) { w.V = s }
func (w *W) PutTag(tag, s string) { w.V = s }
`

type c04Callee struct{ Pkg, Name string }

type c04Probe struct {
	ID      int         `json:"id"`
	Kind    string      `json:"kind"` // source | sink
	Form    string      `json:"form"`
	Callees []c04Callee `json:"callees"`
	Context string      `json:"context"`
	LineA   int         `json:"line_a"`        // source probes: the probed call; sink probes: the sourceP() call
	LineB   int         `json:"line_b"`        // source probes: the private sink call; sink probes: the probed call
	Tag     string      `json:"tag,omitempty"` // string constant passed as first argument of a tagged sink (seen by value-match)
}

type c04Case struct {
	Main   string     `json:"-"`
	Probes []c04Probe `json:"probes"`
	Spec   struct {
		Package, Method, Context, ValueMatch string
	} `json:"spec"`
	Kind string `json:"kind"`
}

const c04Mod = "example.com/m"
const c04AlphaPath = "example.com/m/pkg/alpha"

var c04SourceForms = []string{"direct-alpha", "direct-main", "method-value-recv", "method-ptr-recv", "iface", "funcvalue", "methodvalue", "closure", "direct-fetch", "direct-main2"}
var c04SinkForms = []string{"direct-alpha", "direct-main", "method-value-recv", "method-ptr-recv", "iface", "funcvalue", "methodvalue", "closure", "defer", "direct-store", "tag-direct", "tag-iface", "tag-method"}

// c04Gen draws the probe sites and the specification.
func c04Gen(t *rapid.T, off map[string]bool) *c04Case {
	c := &c04Case{}
	c.Kind = []string{"source", "sink"}[gogen.Uniform(t, 2, "kind")]
	forms := c04SourceForms
	if c.Kind == "sink" {
		forms = c04SinkForms
	}
	var allowed []string
	for _, f := range forms {
		if !off["c04-form:"+c.Kind+":"+f] {
			allowed = append(allowed, f)
		}
	}
	n := 3 + gogen.Uniform(t, 6, "nprobes")
	var lines []string
	emit := func(s string) int { lines = append(lines, s); return len(lines) }
	emit("package main")
	emit("")
	emit("import \"example.com/m/pkg/alpha\"")
	emit("")
	emit("func Get() string      { return \"mg\" }")
	emit("func getData2() string { return \"md\" }")
	emit("func Put(s string)     {}")
	emit("func putData2(s string) {}")
	emit("func sourceP() string  { return \"s\" }")
	emit("")
	for k := 0; k < 10; k++ {
		emit(fmt.Sprintf("func sinkP%d(x string) {}", k))
	}
	emit("")
	emit("var flag bool")
	emit("var _ = alpha.Get")
	emit("")
	// probes are spread over main and helperA
	var mainBody, helperBody []string
	type site struct {
		probe *c04Probe
		body  *[]string
		aOff  int // offset of line A in body
		bOff  int
	}
	var sites []site
	for k := 0; k < n; k++ {
		form := allowed[gogen.Uniform(t, len(allowed), "form")]
		inHelper := gogen.Uniform(t, 3, "where") == 0
		body := &mainBody
		ctx := c04Mod + ".main"
		if inHelper {
			body = &helperBody
			ctx = c04Mod + ".helperA"
		}
		p := &c04Probe{ID: k, Kind: c.Kind, Form: form, Context: ctx}
		add := func(s string) int { *body = append(*body, "\t"+s); return len(*body) - 1 }
		v := fmt.Sprintf("v%d", k)
		if c.Kind == "source" {
			var a int
			switch form {
			case "direct-alpha":
				a = add(v + " := alpha.Get()")
				p.Callees = []c04Callee{{c04AlphaPath, "Get"}}
			case "direct-fetch":
				a = add(v + " := alpha.Fetch()")
				p.Callees = []c04Callee{{c04AlphaPath, "Fetch"}}
			case "direct-main":
				a = add(v + " := Get()")
				p.Callees = []c04Callee{{c04Mod, "Get"}}
			case "direct-main2":
				a = add(v + " := getData2()")
				p.Callees = []c04Callee{{c04Mod, "getData2"}}
			case "method-value-recv":
				add(fmt.Sprintf("t%d := alpha.T{V: \"x\"}", k))
				a = add(fmt.Sprintf("%s := t%d.Get()", v, k))
				p.Callees = []c04Callee{{c04AlphaPath, "Get"}}
			case "method-ptr-recv":
				add(fmt.Sprintf("t%d := &alpha.T{V: \"x\"}", k))
				a = add(fmt.Sprintf("%s := t%d.GetData()", v, k))
				p.Callees = []c04Callee{{c04AlphaPath, "GetData"}}
			case "iface":
				add(fmt.Sprintf("var i%d alpha.I = alpha.U{V: \"x\"}", k))
				add("if flag {")
				add(fmt.Sprintf("\ti%d = &alpha.W{V: \"y\"}", k))
				add("}")
				a = add(fmt.Sprintf("%s := i%d.Get()", v, k))
				p.Callees = []c04Callee{{c04AlphaPath, "Get"}}
			case "funcvalue":
				add(fmt.Sprintf("f%d := alpha.GetData", k))
				add("if flag {")
				add(fmt.Sprintf("\tf%d = alpha.Fetch", k))
				add("}")
				a = add(fmt.Sprintf("%s := f%d()", v, k))
				p.Callees = []c04Callee{{c04AlphaPath, "GetData"}, {c04AlphaPath, "Fetch"}}
			case "methodvalue":
				add(fmt.Sprintf("m%d := alpha.T{V: \"x\"}.Get", k))
				a = add(fmt.Sprintf("%s := m%d()", v, k))
				p.Callees = []c04Callee{{c04AlphaPath, "Get"}}
			case "closure":
				add("func() {")
				a = add("\t" + v + " := alpha.GetData()")
				b := add(fmt.Sprintf("\tsinkP%d(%s)", k, v))
				add("}()")
				p.Callees = []c04Callee{{c04AlphaPath, "GetData"}}
				p.Context = ctx + "$" // closure of the enclosing function: exact name resolved after rendering
				sites = append(sites, site{p, body, a, b})
				c.Probes = append(c.Probes, *p)
				continue
			}
			b := add(fmt.Sprintf("sinkP%d(%s)", k, v))
			sites = append(sites, site{p, body, a, b})
		} else {
			a := add(fmt.Sprintf("%s := sourceP()", v))
			var b int
			switch form {
			case "direct-alpha":
				b = add("alpha.Put(" + v + ")")
				p.Callees = []c04Callee{{c04AlphaPath, "Put"}}
			case "direct-store":
				b = add("alpha.Store(" + v + ")")
				p.Callees = []c04Callee{{c04AlphaPath, "Store"}}
			case "direct-main":
				b = add("putData2(" + v + ")")
				p.Callees = []c04Callee{{c04Mod, "putData2"}}
			case "method-value-recv":
				add(fmt.Sprintf("t%d := alpha.T{V: \"x\"}", k))
				b = add(fmt.Sprintf("t%d.Put(%s)", k, v))
				p.Callees = []c04Callee{{c04AlphaPath, "Put"}}
			case "method-ptr-recv":
				add(fmt.Sprintf("t%d := &alpha.T{V: \"x\"}", k))
				b = add(fmt.Sprintf("t%d.PutData(%s)", k, v))
				p.Callees = []c04Callee{{c04AlphaPath, "PutData"}}
			case "iface":
				add(fmt.Sprintf("var i%d alpha.I = alpha.U{V: \"x\"}", k))
				add("if flag {")
				add(fmt.Sprintf("\ti%d = &alpha.W{V: \"y\"}", k))
				add("}")
				b = add(fmt.Sprintf("i%d.Put(%s)", k, v))
				p.Callees = []c04Callee{{c04AlphaPath, "Put"}}
			case "funcvalue":
				add(fmt.Sprintf("f%d := alpha.PutData", k))
				add("if flag {")
				add(fmt.Sprintf("\tf%d = alpha.Store", k))
				add("}")
				b = add(fmt.Sprintf("f%d(%s)", k, v))
				p.Callees = []c04Callee{{c04AlphaPath, "PutData"}, {c04AlphaPath, "Store"}}
			case "methodvalue":
				add(fmt.Sprintf("m%d := alpha.T{V: \"x\"}.Put", k))
				b = add(fmt.Sprintf("m%d(%s)", k, v))
				p.Callees = []c04Callee{{c04AlphaPath, "Put"}}
			case "closure":
				add("func() {")
				b = add("\talpha.PutData(" + v + ")")
				add("}()")
				p.Callees = []c04Callee{{c04AlphaPath, "PutData"}}
				p.Context = ctx + "$"
			case "defer":
				b = add("defer alpha.Put(" + v + ")")
				p.Callees = []c04Callee{{c04AlphaPath, "Put"}}
			case "tag-direct":
				p.Tag = []string{"QZ1", "QZ2"}[gogen.Uniform(t, 2, "tag")]
				b = add(fmt.Sprintf("alpha.PutTag(%q, %s)", p.Tag, v))
				p.Callees = []c04Callee{{c04AlphaPath, "PutTag"}}
			case "tag-iface":
				p.Tag = []string{"QZ1", "QZ2"}[gogen.Uniform(t, 2, "tag")]
				add(fmt.Sprintf("var i%d alpha.I = alpha.U{V: \"x\"}", k))
				add("if flag {")
				add(fmt.Sprintf("\ti%d = &alpha.W{V: \"y\"}", k))
				add("}")
				b = add(fmt.Sprintf("i%d.PutTag(%q, %s)", k, p.Tag, v))
				p.Callees = []c04Callee{{c04AlphaPath, "PutTag"}}
			case "tag-method":
				p.Tag = []string{"QZ1", "QZ2"}[gogen.Uniform(t, 2, "tag")]
				add(fmt.Sprintf("w%d := &alpha.W{V: \"x\"}", k))
				b = add(fmt.Sprintf("w%d.PutTag(%q, %s)", k, p.Tag, v))
				p.Callees = []c04Callee{{c04AlphaPath, "PutTag"}}
			}
			sites = append(sites, site{p, body, a, b})
		}
		c.Probes = append(c.Probes, *p)
	}
	emit("func helperA() {")
	helperStart := len(lines)
	for _, l := range helperBody {
		emit(l)
	}
	emit("}")
	emit("")
	emit("func main() {")
	mainStart := len(lines)
	for _, l := range mainBody {
		emit(l)
	}
	emit("\thelperA()")
	emit("}")
	// resolve lines and closure contexts
	closureIdx := map[string]int{}
	for i := range c.Probes {
		s := sites[i]
		start := mainStart
		if s.body == &helperBody {
			start = helperStart
		}
		c.Probes[i].LineA = start + s.aOff + 1
		c.Probes[i].LineB = start + s.bOff + 1
	}
	// closures are numbered in source order within their function
	order := make([]int, len(c.Probes))
	for i := range order {
		order[i] = i
	}
	sort.Slice(order, func(a, b int) bool { return c.Probes[order[a]].LineA < c.Probes[order[b]].LineA })
	for _, i := range order {
		p := &c.Probes[i]
		if strings.HasSuffix(p.Context, "$") {
			closureIdx[p.Context]++
			p.Context = fmt.Sprintf("%s%d", p.Context, closureIdx[p.Context])
		}
	}
	c.Main = strings.Join(lines, "\n") + "\n"
	pk := []string{"", "", "alpha", "^example\\.com/m/pkg/alpha$", "pkg/al", "example\\.com/m$", "^example\\.com/m$", "nomatch", "m/pkg"}
	var mt []string
	if c.Kind == "source" {
		mt = []string{"", "Get", "^Get$", "^Get", "Data$", "etD", "^(Get|Fetch)$", "^getData2$", "Fetch", "^[A-Z]"}
	} else {
		mt = []string{"", "Put", "^Put$", "^Put", "Data$", "utD", "^(Put|Store)$", "^putData2$", "Store", "^[A-Z]", "Tag$", "^PutTag$"}
		// value-match: a pattern over the call as the tool prints it (callee and arguments; string constants appear
		// literally, everything else as a register name). The patterns only use "QZ", which occurs nowhere else.
		vm := []string{"", "", "", "QZ1", "QZ[12]", "QZ3", "^QZ"}
		c.Spec.ValueMatch = vm[gogen.Uniform(t, len(vm), "vmre")]
	}
	cx := []string{"", "", "", "main$", "helperA", "main\\$1$", "^example\\.com/m\\.main"}
	c.Spec.Package = pk[gogen.Uniform(t, len(pk), "pkgre")]
	c.Spec.Method = mt[gogen.Uniform(t, len(mt), "methre")]
	if !off["c04-context"] {
		c.Spec.Context = cx[gogen.Uniform(t, len(cx), "ctxre")]
	}
	if off["c04-methodvalue-context"] {
		for _, p := range c.Probes {
			if p.Form == "methodvalue" {
				c.Spec.Context = ""
			}
		}
	}
	if c.Spec.Package == "" && c.Spec.Method == "" {
		c.Spec.Method = mt[1]
	}
	// the specification must not select the probes' own private source / sink functions (a call that is source and
	// sink at once ends the traversal there and says nothing about the probed call)
	infra := func() bool {
		m := func(re, s string) bool { return re == "" || regexp.MustCompile(re).MatchString(s) }
		if !m(c.Spec.Package, c04Mod) {
			return false
		}
		for _, n := range []string{"sourceP", "sinkP0", "sinkP9"} {
			if m(c.Spec.Method, n) {
				return true
			}
		}
		return false
	}
	if infra() {
		c.Spec.Method = mt[2]
	}
	return c
}

func c04Config(c *c04Case) string {
	var b strings.Builder
	b.WriteString("options:\n    log-level: 1\ntaint-tracking-problems:\n  -\n")
	spec := func() {
		if c.Spec.Package != "" {
			fmt.Fprintf(&b, "      - package: %q\n", c.Spec.Package)
			if c.Spec.Method != "" {
				fmt.Fprintf(&b, "        method: %q\n", c.Spec.Method)
			}
		} else {
			fmt.Fprintf(&b, "      - method: %q\n", c.Spec.Method)
		}
		if c.Spec.Context != "" {
			fmt.Fprintf(&b, "        context: %q\n", c.Spec.Context)
		}
		if c.Spec.ValueMatch != "" {
			fmt.Fprintf(&b, "        value-match: %q\n", c.Spec.ValueMatch)
		}
	}
	if c.Kind == "source" {
		b.WriteString("    sources:\n")
		spec()
		b.WriteString("    sinks:\n      - package: \"^example\\\\.com/m$\"\n        method: \"^sinkP[0-9]$\"\n")
	} else {
		b.WriteString("    sources:\n      - package: \"^example\\\\.com/m$\"\n        method: \"^sourceP$\"\n")
		b.WriteString("    sinks:\n")
		spec()
	}
	return b.String()
}

func c04Expected(c *c04Case, p c04Probe) bool {
	match := func(re, s string) bool {
		if re == "" {
			return true
		}
		return regexp.MustCompile(re).MatchString(s)
	}
	if !match(c.Spec.Context, p.Context) {
		return false
	}
	if c.Spec.ValueMatch != "" {
		// the matched text is the printed call; of the things the pattern alphabet can hit it contains only the tag
		// constant, printed as "QZ1":string
		text := ""
		if p.Tag != "" {
			text = fmt.Sprintf("PutTag(%q:string, t0)", p.Tag)
		}
		if !regexp.MustCompile(c.Spec.ValueMatch).MatchString(text) {
			return false
		}
	}
	for _, cal := range p.Callees {
		if match(c.Spec.Package, cal.Pkg) && match(c.Spec.Method, cal.Name) {
			return true
		}
	}
	return false
}

// c04Judge writes the module, loads it through the documented loader, runs the taint analysis and compares with the
// model. Returns "" or the disagreements.
func c04Judge(c *c04Case, scratch string) (string, int, int) {
	_ = os.RemoveAll(scratch)
	files := map[string]string{"go.mod": "module " + c04Mod + "\n\ngo 1.22\n", "main.go": c.Main, "pkg/alpha/alpha.go": c04Alpha}
	if err := core.WriteFiles(scratch, files); err != nil {
		return "HARNESS: " + err.Error(), 0, 0
	}
	l, err := core.LoadDisk(scratch, []string{"."}, true)
	if err != nil {
		return "HARNESS load: " + err.Error(), 0, 0
	}
	cfg, err := config.Load(filepath.Join(scratch, "config.yaml"), []byte(c04Config(c)))
	if err != nil {
		return "HARNESS config: " + err.Error(), 0, 0
	}
	out := core.RunTaint(cfg, l)
	if out.Panic != "" {
		return "analysis panicked: " + oneLine(out.Panic), 0, 0
	}
	if out.Err != nil {
		return "", 0, 0
	}
	bySink, bySrc := map[int]bool{}, map[int]bool{}
	for p := range out.Pairs {
		// a specification that matches the probe's private sink / source function itself produces a flow from that
		// call to itself: not evidence about the probed call
		if p.SrcFile == p.SinkFile && p.Src == p.Sink {
			continue
		}
		if p.SinkFile == "main.go" {
			bySink[p.Sink] = true
		}
		if p.SrcFile == "main.go" {
			bySrc[p.Src] = true
		}
	}
	var problems []string
	nm, nu := 0, 0
	for _, p := range c.Probes {
		want := c04Expected(c, p)
		var got bool
		if c.Kind == "source" {
			got = bySink[p.LineB] // something flowed into the probe's private sink
		} else {
			got = bySrc[p.LineA] // the probe's private source flowed somewhere
		}
		if want {
			nm++
		} else {
			nu++
		}
		if want && !got {
			problems = append(problems, fmt.Sprintf("%s probe %d (form %s, line %d, callees %v, context %s) matches the specification but is not treated as a %s", c.Kind, p.ID, p.Form, probeLine(c, p), p.Callees, p.Context, c.Kind))
		}
		if !want && got {
			problems = append(problems, fmt.Sprintf("%s probe %d (form %s, line %d, callees %v, context %s) does not match the specification but is treated as a %s", c.Kind, p.ID, p.Form, probeLine(c, p), p.Callees, p.Context, c.Kind))
		}
	}
	if len(problems) > 0 {
		return strings.Join(problems, "; ") + fmt.Sprintf(" [spec package=%q method=%q context=%q; reported %v]", c.Spec.Package, c.Spec.Method, c.Spec.Context, out.PairList()), nm, nu
	}
	return "", nm, nu
}

func probeLine(c *c04Case, p c04Probe) int {
	if c.Kind == "source" {
		return p.LineA
	}
	return p.LineB
}

func c04Files(c *c04Case) map[string]string {
	b, _ := json.MarshalIndent(c, "", " ")
	return map[string]string{"main.go": c.Main, "pkg/alpha/alpha.go": c04Alpha, "go.mod": "module " + c04Mod + "\n\ngo 1.22\n", "config.yaml": c04Config(c), "case.json": string(b)}
}

func c04Sig(msg string) string {
	form := "?"
	if i := strings.Index(msg, "(form "); i >= 0 {
		s := msg[i+6:]
		if j := strings.IndexByte(s, ','); j >= 0 {
			form = s[:j]
		}
	}
	kind := "missed"
	if strings.Contains(msg, "does not match the specification but") {
		kind = "spurious"
	}
	which := "source"
	if strings.HasPrefix(msg, "sink") {
		which = "sink"
	}
	return which + "-" + kind + "-" + form
}

func TestC04(t *testing.T) {
	rec := core.NewRecorder("C04", env, "cases = (two-package module example.com/m + example.com/m/pkg/alpha with similarly named functions, "+
		"methods and an interface; 3..8 probe sites in main, a helper and closures; one drawn specification {package, method, context} of "+
		"RE2 patterns: exact, anchored, prefix, suffix, infix, alternation, character class, empty) loaded through analysis.LoadProgram; "+
		"source probes: v := <call form>; sinkPk(v); sink probes: v := sourceP(); <call form>(v); call forms: direct, other package, method "+
		"on value / pointer, interface, function value, method value, closure, defer; oracle (both directions): probe treated as source/sink "+
		"<=> some possible callee matches the patterns (Go regexp, unanchored); non-trivial = the specification matches some but not all "+
		"probes; distinct = hash(program, spec)")
	defer rec.Flush()
	replayKnown(t, "C04")
	off := excluded()
	scratch := filepath.Join(env.Out, fmt.Sprintf("c04-%d", env.Shard), "m")
	rapidSetup(env.Pick(280, 2800), 4)
	rapid.Check(t, func(rt *rapid.T) {
		c := c04Gen(rt, off)
		msg, nm, nu := c04Judge(c, scratch)
		var labels []string
		for _, p := range c.Probes {
			labels = append(labels, c.Kind+":"+p.Form)
		}
		rec.Case(core.Hash(c.Main, c04Config(c)), nm > 0 && nu > 0, labels, func() any {
			return map[string]any{"main.go": c.Main, "config": c04Config(c), "matching_probes": nm, "non_matching_probes": nu}
		})
		if strings.HasPrefix(msg, "HARNESS") {
			rt.Fatalf("%s", msg)
		}
		if msg != "" {
			m := env.Report(core.Violation{ID: "C04", Signature: c04Sig(msg), What: msg, Files: c04Files(c), Kind: "c04"})
			rt.Fatalf("%s", m)
		}
	})
}

func init() {
	replayers["c04"] = func(dir string) string {
		var c c04Case
		b, err := os.ReadFile(filepath.Join(dir, "case.json"))
		if err != nil || json.Unmarshal(b, &c) != nil {
			return "HARNESS cannot read case.json"
		}
		m, _ := os.ReadFile(filepath.Join(dir, "main.go"))
		c.Main = string(m)
		scratch := filepath.Join(env.Out, "c04-replay", "m")
		msg, _, _ := c04Judge(&c, scratch)
		return msg
	}
}

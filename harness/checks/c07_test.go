package checks

import (
	"fmt"
	"os"
	"path/filepath"
	"strconv"
	"strings"
	"testing"
	"time"

	"github.com/awslabs/ar-go-tools/verifharness/core"
	"github.com/awslabs/ar-go-tools/verifharness/gogen"
	"pgregory.net/rapid"
)

// C07: every analysis returns (a result or an error) on every well-typed program: no panic, no process death, no
// divergence. The analyses run in a child process so that fatal errors and over-budget runs can be observed and stopped.

var c07Steps = []string{"taint-eager", "taint-ondemand", "taint-escape", "taint-fieldsens", "backtrace-eager", "backtrace-ondemand",
	"escape", "reachability", "defers", "maypanic"}

// c07BudgetOverride (seconds of CPU time) is set while replaying a stored case that carries a budget.txt: a recorded
// budget finding is re-judged under the budget it was recorded with.
var c07BudgetOverride time.Duration

func c07Budget() (soft, hard time.Duration) {
	if c07BudgetOverride > 0 {
		return c07BudgetOverride, c07BudgetOverride
	}
	if env.Thorough() {
		return 60 * time.Second, 300 * time.Second
	}
	return 20 * time.Second, 90 * time.Second
}

// c07Run runs the steps one by one; it returns a violation description ("" if none), its signature, and counts.
func c07Run(worker *core.Worker, files map[string]string, steps []string, rec *core.Recorder) (string, string) {
	soft, hard := c07Budget()
	for _, st := range steps {
		res, over, err := worker.All(files, st, soft)
		if died, ok := err.(*core.ErrWorkerDied); ok {
			return fmt.Sprintf("analysis step %s killed the process: %s", st, oneLine(lastN(died.Stderr, 1500))), "crash-" + st + "-" + crashSite(died.Stderr)
		}
		if err != nil {
			return "HARNESS worker: " + err.Error(), "harness"
		}
		if over {
			// second chance with the hard cap, alone
			if rec != nil {
				rec.Count("steps_over_soft_budget", 1)
			}
			if hard > soft {
				res, over, err = worker.All(files, st, hard)
			}
			if died, ok := err.(*core.ErrWorkerDied); ok {
				return fmt.Sprintf("analysis step %s killed the process: %s", st, oneLine(lastN(died.Stderr, 1500))), "crash-" + st + "-" + crashSite(died.Stderr)
			}
			if over && strings.HasPrefix(st, "backtrace") && excluded()["budget:backtrace"] && !replaying {
				// recorded finding: the backtrace analysis enumerates every backward path (exponentially many traces)
				if rec != nil {
					rec.Count("excluded_by_known_finding", 1)
					rec.Count("backtrace_over_budget_excluded", 1)
				}
				continue
			}
			if over {
				return fmt.Sprintf("analysis step %s did not return within %v of CPU time on a %d-line program (suspected divergence)", st, hard,
					strings.Count(afterDecls(files["main.go"]), "\n")), "diverges-" + st
			}
			if rec != nil {
				rec.Count("slow_but_terminating", 1)
			}
		}
		for _, r := range res {
			if strings.HasPrefix(r.Panic, "HARNESS") {
				return r.Panic, "harness"
			}
			if r.Panic != "" {
				return fmt.Sprintf("analysis step %s panicked: %s", r.Step, oneLine(r.Panic)), "panic-" + r.Step + "-" + panicSite(r.Panic)
			}
			if r.Err != "" && rec != nil {
				rec.Count("returned_error:"+r.Step, 1)
			}
		}
	}
	return "", ""
}

func TestC07(t *testing.T) {
	rec := core.NewRecorder("C07", env, "cases = generated 'wild' programs (flow profile plus goroutines, recover, unsafe, mutual / closure / "+
		"type recursion, defer in unbounded loops, generic types with several instantiations, a function without body, select) on which "+
		"taint (eager, on-demand, with escape analysis, field-sensitive), backtrace (eager, on-demand), escape, reachability (4 root "+
		"selections), defers (every function) and may-panic are run in a child process under recover and a budget; oracle: every entry "+
		"point returns; non-trivial = the program contains a wild feature (recursion cycle, recursive type, defer in loop, generic type, "+
		"goroutine, recover, unsafe, bodyless function); distinct = hash of program")
	rec.Assumptions = []string{"divergence can only be suspected through a budget (CPU time of the analysis process: soft budget, then a second run under a hard cap)"}
	defer rec.Flush()
	replayKnown(t, "C07")
	worker := core.NewWorker(env.Root)
	defer worker.Close()
	steps := []string{}
	off := excluded()
	for _, s := range c07Steps {
		if off["step:"+s] {
			rec.Count("excluded_by_known_finding", 1)
			continue
		}
		steps = append(steps, s)
	}
	rapidSetup(env.Pick(500, 2500), 7)
	rapid.Check(t, func(rt *rapid.T) {
		prog := gogen.Generate(rt, gogen.WildProfile(off))
		files := map[string]string{"main.go": prog.Main, "prelude.go": gogen.AnalysedPrelude}
		rec.Case(core.Hash(prog.Main), prog.Feats["wild"] || prog.Feats["recursion"], prog.FeatList(), func() any {
			return map[string]any{"program_from_first_function": core.Truncate(afterDecls(prog.Main), 50)}
		})
		msg, sig := c07Run(worker, files, steps, rec)
		if sig == "harness" {
			rt.Fatalf("HARNESS: %s", msg)
		}
		if msg != "" {
			files["steps.txt"] = strings.Join(steps, "\n") + "\n"
			m := env.Report(core.Violation{ID: "C07", Signature: sig, What: msg, Files: files, Kind: "c07"})
			rt.Fatalf("%s", m)
		}
	})
}

func init() {
	replayers["c07"] = func(dir string) string {
		files := map[string]string{}
		for _, n := range []string{"main.go", "prelude.go"} {
			b, err := os.ReadFile(filepath.Join(dir, n))
			if err != nil {
				return "HARNESS cannot read " + n
			}
			files[n] = string(b)
		}
		steps := c07Steps
		if b, err := os.ReadFile(filepath.Join(dir, "steps.txt")); err == nil {
			steps = strings.Fields(string(b))
		}
		if b, err := os.ReadFile(filepath.Join(dir, "budget.txt")); err == nil {
			if n, err := strconv.Atoi(strings.TrimSpace(string(b))); err == nil && n > 0 {
				c07BudgetOverride = time.Duration(n) * time.Second
				defer func() { c07BudgetOverride = 0 }()
			}
		}
		replaying = true
		defer func() { replaying = false }()
		worker := core.NewWorker(env.Root)
		defer worker.Close()
		for rep := 0; rep < 4; rep++ {
			if msg, sig := c07Run(worker, files, steps, nil); msg != "" && sig != "harness" {
				return msg
			}
		}
		return ""
	}
}

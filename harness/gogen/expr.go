package gogen

import (
	"fmt"
)

// lit returns a literal / constructor of type t; sub-expressions are generated with depth d.
func (g *gen) lit(t Type, d int) string {
	switch t {
	case TStr:
		g.nvar++
		return fmt.Sprintf("\"c%d\"", g.nvar)
	case TPStr:
		if v, ok := g.pickVar(TStr, "addrof"); ok && v.addr {
			return "&" + v.name
		}
		return "new(string)"
	case TSlice:
		return "[]string{" + g.expr(TStr, d+1) + ", " + g.expr(TStr, d+1) + "}"
	case TMap:
		return "map[string]string{\"k\": " + g.expr(TStr, d+1) + "}"
	case TS:
		return g.structLit(d)
	case TPS:
		if g.chance(30, "news") {
			return "&" + g.structLit(d)
		}
		return "newS(" + g.expr(TStr, d+1) + ")"
	case TBytes:
		return "[]byte(" + g.expr(TStr, d+1) + ")"
	case TAny:
		inner := []Type{TStr, TStr, TPS, TSlice, TPStr, TS, TMap}[g.intn(7, "anyinner")]
		if g.typeOff(inner) {
			inner = TPS
		}
		if inner != TStr && g.off("iface-boxes-ref") {
			// known finding: a reference boxed in an interface and mutated afterwards is not tracked
			inner = TStr
		}
		return "any(" + g.expr(inner, d+1) + ")"
	case TBox:
		switch g.intn(4, "boxkind") {
		case 0:
			return "&BoxA{v: " + g.expr(TStr, d+1) + "}"
		case 1:
			return "&BoxB{l: []string{" + g.expr(TStr, d+1) + "}}"
		case 2:
			// value-receiver methods that call a function held in a field; boxed by pointer (reached through the
			// synthetic pointer wrapper) or by value
			amp := "&"
			if g.chance(40, "boxdval") {
				amp = ""
			}
			return amp + "BoxD{f: " + g.expr(TFunc, d+1) + ", v: " + g.expr(TStr, d+1) + "}"
		default:
			if g.off("iface-boxes-ref") {
				return "&BoxA{v: " + g.expr(TStr, d+1) + "}"
			}
			return "BoxC{p: " + g.expr(TPStr, d+1) + "}"
		}
	case TFunc:
		switch g.intn(4, "funckind") {
		case 0:
			return "idf"
		case 1:
			return "dropf"
		case 2:
			if v, ok := g.pickVar(TStr, "capture"); ok {
				g.feat("closure-capture")
				return "func(x string) string { " + g.enterCall() + "return x + " + v.name + " }"
			}
			return "func(x string) string { " + g.enterCall() + "return x }"
		default:
			if v, ok := g.pickVar(TPS, "capture"); ok {
				g.feat("closure-capture")
				g.feat("closure-writes-captured")
				return "func(x string) string { " + g.enterCall() + v.name + ".B = x; return " + v.name + ".A }"
			}
			return "func(x string) string { " + g.enterCall() + "return \"k\" + x }"
		}
	case TArr:
		return "[2]string{" + g.expr(TStr, d+1) + ", " + g.expr(TStr, d+1) + "}"
	case TName:
		return "Name(" + g.expr(TStr, d+1) + ")"
	case TLPS:
		return "[]*S{" + g.expr(TPS, d+1) + "}"
	case TMPS:
		return "map[string]*S{\"k\": " + g.expr(TPS, d+1) + "}"
	case TE:
		return "E{S: " + g.structLit(d) + ", Z: " + g.expr(TStr, d+1) + "}"
	case TChan:
		return "make(chan string, 4)"
	}
	panic("lit: " + string(t))
}

func (g *gen) structLit(d int) string {
	s := "S{A: " + g.expr(TStr, d+1) + ", P: " + g.expr(TPStr, d+2) + ", L: make([]string, 2), M: map[string]string{}"
	if g.chance(40, "fieldB") {
		s += ", B: " + g.expr(TStr, d+1)
	}
	if d < 2 && g.chance(15, "fieldX") {
		s += ", X: " + g.expr(TAny, d+2)
		g.feat("field-any")
	}
	if d < 2 && g.chance(15, "fieldF") {
		s += ", F: " + g.expr(TFunc, d+2)
		g.feat("field-func")
	}
	if d < 2 && g.chance(15, "fieldI") {
		s += ", I: " + g.expr(TBox, d+2)
		g.feat("field-iface")
	}
	if d < 2 && g.chance(15, "fieldN") {
		s += ", N: " + g.expr(TPS, d+2)
		g.feat("field-next")
	}
	return s + "}"
}

// derive returns an expression of type t computed from a variable of another type ("" if none is possible).
func (g *gen) derive(t Type, d int) string {
	type alt struct {
		from Type
		f    func(v string) string
		feat string
	}
	var alts []alt
	add := func(from Type, feat string, f func(v string) string) {
		if g.p.Off[feat] {
			return
		}
		if len(g.varsOf(from)) > 0 {
			alts = append(alts, alt{from, f, feat})
		}
	}
	idx := func() string { return fmt.Sprint(g.intn(2, "idx")) }
	switch t {
	case TStr:
		add(TPStr, "load-ptr", func(v string) string { return "*" + v })
		add(TSlice, "index-slice", func(v string) string { return v + "[" + idx() + "]" })
		add(TMap, "map-lookup", func(v string) string { return v + "[\"k\"]" })
		add(TS, "field-read", func(v string) string { return v + []string{".A", ".B"}[g.intn(2, "fld")] })
		add(TPS, "field-read-ptr", func(v string) string {
			return v + []string{".A", ".B", ".L[0]", ".M[\"k\"]"}[g.intn(4, "fld")]
		})
		add(TPS, "field-ptr-load", func(v string) string { return "*" + v + ".P" })
		add(TBytes, "conv-bytes-string", func(v string) string { return "string(" + v + ")" })
		add(TArr, "index-array", func(v string) string { return v + "[" + idx() + "]" })
		add(TName, "conv-named", func(v string) string { return "string(" + v + ")" })
		add(TE, "field-promoted", func(v string) string { return v + []string{".A", ".Z", ".S.B"}[g.intn(3, "fld")] })
		add(TLPS, "index-slice-ptr", func(v string) string { return v + "[0].A" })
		add(TStr, "concat", func(v string) string { return v + " + " + g.expr(TStr, d+1) })
		add(TStr, "slice-string", func(v string) string { return v + "[0:]" })
		add(TStr, "minmax2", func(v string) string {
			return []string{"min", "max"}[g.intn(2, "mm")] + "(" + v + ", " + g.expr(TStr, d+1) + ")"
		})
		add(TStr, "minmax3", func(v string) string {
			return []string{"min", "max"}[g.intn(2, "mm")] + "(" + g.expr(TStr, d+1) + ", " + v + ", " + g.expr(TStr, d+1) + ")"
		})
	case TPStr:
		add(TPS, "field-ptr", func(v string) string { return v + ".P" })
		add(TPS, "addr-field", func(v string) string { return "&" + v + ".A" })
		add(TSlice, "addr-elem", func(v string) string { return "&" + v + "[0]" })
	case TSlice:
		add(TPS, "field-slice", func(v string) string { return v + ".L" })
		add(TSlice, "slice-slice", func(v string) string { return v + []string{"[0:1]", "[:]", "[1:]"}[g.intn(3, "sl")] })
		add(TSlice, "append", func(v string) string { return "append(" + v + ", " + g.expr(TStr, d+1) + ")" })
		add(TSlice, "append-spread", func(v string) string { return "append(" + v + ", " + g.expr(TSlice, d+1) + "...)" })
	case TMap:
		add(TPS, "field-map", func(v string) string { return v + ".M" })
	case TS:
		if g.p.Off["struct-value-copy"] {
			break
		}
		add(TPS, "load-struct", func(v string) string { return "*" + v })
		add(TE, "embedded-struct", func(v string) string { return v + ".S" })
	case TPS:
		add(TLPS, "index-slice-ptr", func(v string) string { return v + "[0]" })
	case TBytes:
		add(TBytes, "append-bytes", func(v string) string { return "append(" + v + ", " + g.expr(TStr, d+1) + "...)" })
		add(TBytes, "slice-bytes", func(v string) string { return v + "[0:]" })
	case TLPS:
		add(TLPS, "append-ptr", func(v string) string { return "append(" + v + ", " + g.expr(TPS, d+1) + ")" })
	}
	if len(alts) == 0 {
		return ""
	}
	a := alts[g.intn(len(alts), "derive")]
	v, _ := g.pickVar(a.from, "from")
	if (a.feat == "addr-field" || a.feat == "addr-elem") && !v.addr {
		return ""
	}
	g.feat(a.feat)
	return a.f(v.name)
}

// expr returns a call-free expression of type t (user functions are only called at statement level, one call per
// line; builtins and conversions may appear here).
func (g *gen) expr(t Type, d int) string {
	if t == TChan {
		if v, ok := g.pickVar(TChan, "chan"); ok {
			return v.name
		}
		return g.lit(t, d)
	}
	r := g.intn(100, "exprkind")
	vs := g.varsOf(t)
	if len(vs) > 0 && (r < 70 || d >= 3) {
		v, _ := g.pickVar(t, "var")
		return v.name
	}
	if d < 3 && r < 92 {
		if e := g.derive(t, d); e != "" {
			return e
		}
	}
	if d >= 3 {
		// keep literals small when deep
		switch t {
		case TStr:
			return g.lit(TStr, d)
		case TPStr:
			return "new(string)"
		case TSlice:
			return "make([]string, 2)"
		case TMap:
			return "map[string]string{}"
		case TPS:
			return "newS(\"\")"
		case TS:
			return "*newS(\"\")"
		case TAny:
			return "any(\"\")"
		case TFunc:
			return "idf"
		case TBox:
			return "&BoxA{}"
		case TBytes:
			return "[]byte(\"\")"
		case TArr:
			return "[2]string{}"
		case TName:
			return "Name(\"\")"
		case TLPS:
			return "[]*S{newS(\"\")}"
		case TMPS:
			return "map[string]*S{}"
		case TE:
			return "E{S: *newS(\"\")}"
		}
	}
	return g.lit(t, d)
}

package main

var done = make(chan int, 64)
var note string

type Runner interface{ Run() }

func rec() { recover() }

func nested() { recover() }

func idle() { done <- 1 }

func boom(i int) {
	if cond(i) {
		panic("boom")
	}
}

func worker0() {
	defer func() { done <- 1 }()
	boom(0)
}

type W1 struct{ n int }

func (w *W1) Run() {
	defer func() { done <- 1 }()
	boom(1)
}

func main() {
	go worker0()
	var r1 Runner = &W1{}
	go r1.Run()
	for i := 0; i < 2; i++ {
		<-done
	}
}

package checks

import (
	"encoding/json"
	"fmt"
	"os"
	"path/filepath"
	"sort"
	"strings"
	"testing"
	"time"

	"github.com/awslabs/ar-go-tools/verifharness/core"
	"github.com/awslabs/ar-go-tools/verifharness/gogen"
	"github.com/awslabs/ar-go-tools/verifharness/native"
	"pgregory.net/rapid"
)

// flowCase is a generated program together with the valuations under which it is executed natively.
type flowCase struct {
	Prog *gogen.Program
	Vals []uint64
	Key  string
}

func (c *flowCase) files() map[string]string {
	return map[string]string{"main.go": c.Prog.Main, "prelude.go": gogen.AnalysedPrelude}
}

func (c *flowCase) unit() native.Unit {
	return native.Unit{Key: c.Key, Vals: c.Vals, Isolated: strings.Contains(c.Prog.Main, "\nfunc init() {"),
		Files: map[string]string{"main.go": c.Prog.Main, "prelude.go": gogen.NativePrelude("main", "vnative/rt")}}
}

// drawVals returns the valuations: all-false, all-true and nv drawn ones; exhaustive when the program uses <= 5 bits.
func drawVals(t *rapid.T, nbits int, nv int) []uint64 {
	if nbits <= 5 {
		var r []uint64
		for v := uint64(0); v < 1<<uint(nbits); v++ {
			r = append(r, v)
		}
		return r
	}
	mask := uint64(1)<<uint(nbits) - 1
	seen := map[uint64]bool{0: true, mask: true}
	r := []uint64{0, mask}
	for i := 0; i < nv; i++ {
		v := rapid.Uint64Range(0, mask).Draw(t, "valuation")
		if !seen[v] {
			seen[v] = true
			r = append(r, v)
		}
	}
	return r
}

func genFlowCase(t *rapid.T, p *gogen.Profile, nv int) *flowCase {
	prog := gogen.Generate(t, p)
	c := &flowCase{Prog: prog}
	c.Vals = drawVals(t, prog.NBits, nv)
	c.Key = core.Hash(prog.Main, fmt.Sprint(c.Vals))
	return c
}

// twoPass runs a native-oracle property: pass 1 generates the cases and collects the native units, they are built
// and executed in one batch, pass 2 re-generates the same cases (same seed) and judges them against the cache.
// During shrinking pass 2 meets programs that are not in the cache; those are built singly.
type twoPass struct {
	id      string
	salt    int
	checks  int
	gen     func(t *rapid.T) *flowCase
	judge   func(t *rapid.T, c *flowCase, res *native.Result)
	pre     func(t *rapid.T, c *flowCase) // optional: judged before (and without) the native result
	unit    func(c *flowCase) native.Unit // optional: how a case is rendered natively (default c.unit())
	opt     native.Options
	cache   map[string]*native.Result
	rec     *core.Recorder
	nsingle int
}

func (tp *twoPass) run(t *testing.T) {
	tp.cache = map[string]*native.Result{}
	if tp.unit == nil {
		tp.unit = func(c *flowCase) native.Unit { return c.unit() }
	}
	var units []native.Unit
	seen := map[string]bool{}
	rapidSetup(tp.checks, tp.salt)
	rapid.Check(t, func(rt *rapid.T) {
		c := tp.gen(rt)
		if !seen[c.Key] {
			seen[c.Key] = true
			units = append(units, tp.unit(c))
		}
	})
	if t.Failed() {
		return
	}
	start := time.Now()
	if tp.opt.Workers == 0 {
		tp.opt.Workers = 3
	}
	// build in chunks so that a chunk's scratch module stays small
	const chunk = 120
	for i := 0; i < len(units); i += chunk {
		j := i + chunk
		if j > len(units) {
			j = len(units)
		}
		dir := filepath.Join(env.Out, fmt.Sprintf("native-%s-%d-%d", tp.id, env.Shard, i))
		res, err := native.RunBatch(dir, units[i:j], tp.opt)
		if err != nil {
			t.Fatalf("native batch failed (harness): %v", err)
		}
		for k, v := range res {
			tp.cache[k] = v
		}
	}
	tp.rec.Note("native_batch_seconds", time.Since(start).Seconds())
	fmt.Printf("VERIF-TIME shard %d: %d units, batch %.1fs\n", env.Shard, len(units), time.Since(start).Seconds())
	start2 := time.Now()
	defer func() {
		fmt.Printf("VERIF-TIME shard %d: pass2 %.1fs (%d single builds)\n", env.Shard, time.Since(start2).Seconds(), tp.nsingle)
	}()
	for _, r := range tp.cache {
		if r.BuildErr != "" {
			t.Fatalf("HARNESS: generated program does not build natively:\n%s", r.BuildErr)
		}
	}
	rapidSetup(tp.checks, tp.salt)
	rapid.Check(t, func(rt *rapid.T) {
		c := tp.gen(rt)
		if tp.pre != nil {
			tp.pre(rt, c)
		}
		res := tp.cache[c.Key]
		if res == nil {
			tp.nsingle++
			dir := filepath.Join(env.Out, fmt.Sprintf("native-%s-%d-single-%d", tp.id, env.Shard, tp.nsingle))
			m, err := native.RunBatch(dir, []native.Unit{tp.unit(c)}, tp.opt)
			if err != nil || m[c.Key] == nil || m[c.Key].BuildErr != "" {
				rt.Skip("native build failed while shrinking")
			}
			res = m[c.Key]
			tp.cache[c.Key] = res
		}
		tp.judge(rt, c, res)
	})
}

// observed merges the flows of all runs: (source line, sink line) -> argument indices, unapproved only when
// respectApproval is set.
var deepExcluded int

// replaying is set while a stored case is re-judged: exclusions that keep the search going past known findings do not
// apply to replays (a known finding must still reproduce).
var replaying bool

func observedFlows(res *native.Result, respectApproval bool) map[[2]int]bool {
	obs := map[[2]int]bool{}
	deepOff := excluded()["deep-reachability"] && !replaying
	for _, r := range res.Runs {
		appr := map[int]bool{}
		if respectApproval {
			for _, a := range r.Approved {
				appr[a] = true
			}
		}
		hops := map[[2]int]int{}
		for _, h := range r.Hops {
			hops[[2]int{h[0], h[1]}] = h[2]
		}
		for _, f := range r.Flows {
			if appr[f[0]] {
				continue
			}
			k := [2]int{f[0], f[1]}
			if deepOff && hops[k] >= 2 {
				// known finding (reachability aliasing): witness nested two or more references below the sink argument
				deepExcluded++
				continue
			}
			obs[k] = true
		}
	}
	return obs
}

func runStats(res *native.Result) (panics, crashes int) {
	for _, r := range res.Runs {
		if r.Panic != "" {
			panics++
		}
		if r.Crashed {
			crashes++
		}
	}
	return
}

func pairKeys(m map[[2]int]bool) []string {
	var l []string
	for p := range m {
		l = append(l, fmt.Sprintf("%d->%d", p[0], p[1]))
	}
	sort.Strings(l)
	return l
}

// nontrivialFlow: some observed flow whose source and sink calls are in different functions, or whose sunk variable
// is not the one that directly received the source result.
func nontrivialFlow(p *gogen.Program, obs map[[2]int]bool) bool {
	for f := range obs {
		if p.SrcFunc[f[0]] != p.SinkFunc[f[1]] || !p.Direct[f] {
			return true
		}
	}
	return false
}

type taintVariant struct {
	Name string
	Opts core.TaintOpts
}

var c01Variants = []taintVariant{
	{"eager", core.TaintOpts{}},
	{"eager-fieldsens", core.TaintOpts{FieldSensitive: true}},
	{"ondemand", core.TaintOpts{OnDemand: true}},
	{"ondemand-fieldsens", core.TaintOpts{OnDemand: true, FieldSensitive: true}},
}

// missingFlows analyses the case under a configuration and returns the observed pairs that are not reported.
func missingFlows(files map[string]string, opts core.TaintOpts, obs map[[2]int]bool) (missing []string, out *core.TaintOutcome, err error) {
	l, err := core.LoadSource(files)
	if err != nil {
		return nil, nil, err
	}
	out = core.RunTaint(core.MustConfig(opts.YAML()), l)
	if out.Panic != "" || out.Err != nil {
		return nil, out, nil
	}
	for f := range obs {
		if !out.Pairs[core.Pair{SrcFile: "main.go", Src: f[0], SinkFile: "main.go", Sink: f[1]}] {
			missing = append(missing, fmt.Sprintf("%d->%d", f[0], f[1]))
		}
	}
	sort.Strings(missing)
	return missing, out, nil
}

// featureSignature: the root-cause grouping of a missed flow = the sorted feature labels of the (shrunk) program.
func featureSignature(p *gogen.Program) string {
	fs := p.FeatList()
	if len(fs) > 6 {
		fs = fs[:6]
	}
	return strings.Join(fs, "+")
}

func writeFlowViolation(id, kind string, c *flowCase, variant taintVariant, what string, obs map[[2]int]bool, sig string) string {
	files := c.files()
	files["native/main.go"] = c.Prog.Main
	files["native/prelude.go"] = gogen.NativePrelude("main", "vnative/rt")
	files["config.yaml"] = variant.Opts.YAML()
	exp := map[string]any{"observed": pairKeys(obs), "valuations": c.Vals, "variant": variant.Name, "opts": variant.Opts}
	b, _ := json.MarshalIndent(exp, "", " ")
	files["expect.json"] = string(b)
	return env.Report(core.Violation{ID: id, Signature: sig, What: what, Files: files, Kind: kind})
}

// replayFlow re-runs the stored program natively, re-analyses it and applies the same comparison.
func replayFlowDir(dir string, respectApproval bool) string {
	replaying = true
	defer func() { replaying = false }()
	main, err := os.ReadFile(filepath.Join(dir, "main.go"))
	if err != nil {
		return "cannot read main.go: " + err.Error()
	}
	var exp struct {
		Valuations []uint64       `json:"valuations"`
		Variant    string         `json:"variant"`
		Opts       core.TaintOpts `json:"opts"`
	}
	b, _ := os.ReadFile(filepath.Join(dir, "expect.json"))
	_ = json.Unmarshal(b, &exp)
	prog := &gogen.Program{Main: string(main)}
	c := &flowCase{Prog: prog, Vals: exp.Valuations, Key: core.Hash(string(main))}
	sdir, _ := os.MkdirTemp(env.Out, "replay-native")
	m, err := native.RunBatch(sdir, []native.Unit{c.unit()}, native.Options{Workers: 4})
	if err != nil || m[c.Key] == nil {
		return fmt.Sprintf("HARNESS native replay failed: %v", err)
	}
	if m[c.Key].BuildErr != "" {
		return "HARNESS native build failed: " + m[c.Key].BuildErr
	}
	obs := observedFlows(m[c.Key], respectApproval)
	// the analysis is repeated: some failures depend on map iteration order
	for rep := 0; rep < 12; rep++ {
		missing, out, err := missingFlows(c.files(), exp.Opts, obs)
		if err != nil {
			return "HARNESS load failed: " + err.Error()
		}
		if out.Panic != "" {
			return "analysis panicked: " + oneLine(out.Panic)
		}
		if out.Err != nil {
			continue
		}
		if len(missing) > 0 {
			return fmt.Sprintf("observed flows not reported (%s): %s", exp.Variant, strings.Join(missing, ","))
		}
	}
	return ""
}

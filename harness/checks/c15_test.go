//go:build verif

package checks

import (
	"fmt"
	"os"
	"path/filepath"
	"strings"
	"testing"

	"github.com/awslabs/ar-go-tools/analysis/config"
	"github.com/awslabs/ar-go-tools/analysis/dataflow"
	"github.com/awslabs/ar-go-tools/analysis/escape"
	"github.com/awslabs/ar-go-tools/verifharness/core"
	"github.com/awslabs/ar-go-tools/verifharness/gogen"
	"golang.org/x/tools/go/ssa"
	"pgregory.net/rapid"
)

// C15: escape graphs form a join-semilattice and transfer functions are monotone. The graphs come from real analyses
// (through the verif-tagged accessors in analysis/escape/verif_hooks.go) and from rapid-weakened variants.

func c15Escape(files map[string]string) (*escape.ProgramAnalysisState, string, error) {
	l, err := core.LoadSource(files)
	if err != nil {
		return nil, "", err
	}
	cfg := core.MustConfig(core.TaintOpts{UseEscape: true}.YAML())
	var prog *escape.ProgramAnalysisState
	var pan string
	func() {
		defer func() {
			if r := recover(); r != nil {
				pan = fmt.Sprint(r)
			}
		}()
		state, err := dataflow.NewInitializedAnalyzerState(l.Prog, nil, config.NewLogGroup(cfg), cfg)
		if err != nil {
			return
		}
		prog, _ = escape.EscapeAnalysis(state, state.PointerAnalysis.CallGraph.Root)
	}()
	return prog, pan, nil
}

func join(a, b *escape.EscapeGraph) *escape.EscapeGraph {
	c := a.Clone()
	c.Merge(b)
	return c
}

func leq(a, b *escape.EscapeGraph) bool {
	ok, _ := a.LessEqual(b)
	return ok
}

type c15Stats struct {
	laws, incomparable, mono, strict int
	monoFromInitial              int
	initialPairStoppedAtCall     int
}

// c15Function checks the laws on the graphs of one function. pick draws indices.
func c15Function(v escape.VerifFunc, pick func(n int, label string) int, st *c15Stats) string {
	fn := v.Fn()
	var graphs []*escape.EscapeGraph
	graphs = append(graphs, v.Initial(), v.Final())
	for _, b := range fn.Blocks {
		if g := v.BlockEnd(b); g != nil {
			graphs = append(graphs, g)
		}
	}
	for _, g := range graphs {
		if n, _ := g.VerifSize(); n > 400 {
			return ""
		}
	}
	where := fmt.Sprintf("in %v", fn)
	for _, g := range graphs {
		if msg := g.VerifStatusClosed(); msg != "" {
			return fmt.Sprintf("%s: a graph that arose during the analysis is not closed under status propagation: %s", where, msg)
		}
	}
	// weakened variants: joins with other graphs of the function and raised statuses
	weaken := func(g *escape.EscapeGraph) *escape.EscapeGraph {
		w := g.Clone()
		switch pick(3, "weaken") {
		case 0:
			w.Merge(graphs[pick(len(graphs), "weakenwith")])
		case 1:
			ns := w.VerifNodes()
			if len(ns) > 0 {
				w.MergeNodeStatus(ns[pick(len(ns), "raise")], escape.EscapeStatus(1+pick(2, "to")), nil)
			}
		default:
			w.Merge(graphs[pick(len(graphs), "weakenwith")])
			ns := w.VerifNodes()
			if len(ns) > 0 {
				w.MergeNodeStatus(ns[pick(len(ns), "raise")], escape.Leaked, nil)
			}
		}
		return w
	}
	for round := 0; round < 6; round++ {
		a := graphs[pick(len(graphs), "a")]
		b := graphs[pick(len(graphs), "b")]
		c := graphs[pick(len(graphs), "c")]
		if pick(2, "wa") == 0 {
			a = weaken(a)
		}
		if pick(2, "wb") == 0 {
			b = weaken(b)
		}
		st.laws++
		if !leq(a, b) && !leq(b, a) {
			st.incomparable++
		}
		if !join(a, a).Matches(a) {
			return where + ": merge is not idempotent (a join a differs from a)"
		}
		ab, ba := join(a, b), join(b, a)
		if !ab.Matches(ba) {
			return where + ": merge is not commutative"
		}
		if !join(ab, c).Matches(join(a, join(b, c))) {
			return where + ": merge is not associative"
		}
		if !leq(a, ab) || !leq(b, ab) {
			return where + ": the merge of two graphs is not an upper bound of its operands"
		}
		if leq(a, b) && !join(a, b).Matches(b) {
			return where + ": a <= b but a join b differs from b"
		}
		if msg := ab.VerifStatusClosed(); msg != "" {
			return where + ": merge result is not closed under status propagation: " + msg
		}
	}
	// monotonicity of the transfer functions: P <= P' => T_i(P) <= T_i(P') along the instructions of a block
	for _, b := range fn.Blocks {
		if v.BlockEnd(b) == nil {
			continue
		}
		p := v.BlockStart(b)
		q := weaken(p)
		if !leq(p, q) {
			return where + ": weakening did not produce a larger graph (harness or merge defect)"
		}
		strict := !leq(q, p)
		for _, ins := range b.Instrs {
			if msg := v.Transfer(ins, p); msg != "" {
				return fmt.Sprintf("%s: transfer function of %q panicked on a graph that arose during the analysis: %s", where, ins, msg)
			}
			if msg := v.Transfer(ins, q); msg != "" {
				// the weakened graph may violate an internal invariant of the transfer function: discarded
				break
			}
			st.mono++
			if strict {
				st.strict++
			}
			if ok, reason := p.LessEqual(q); !ok {
				return fmt.Sprintf("%s: transfer function of %q is not monotone: inputs were ordered, outputs are not (%s)", where, ins, reason)
			}
		}
		// second pair: the function's initial graph (what the first visit of the block sees at most) against the
		// fixpoint graph at the block start. An effect that depends on what an earlier iteration already added to the
		// graph (edges that only arrive through a back edge) shows up here and not in the pair above, whose two
		// graphs both contain everything the fixpoint contains.
		lo := v.Initial().Clone()
		hi := v.BlockStart(b)
		if !leq(lo, hi) {
			continue
		}
		for _, ins := range b.Instrs {
			if ci, ok := ins.(ssa.CallInstruction); ok {
				if _, builtin := ci.Common().Value.(*ssa.Builtin); !builtin {
					// instantiation of callee summaries is judged by the first pair only: on the initial graph it creates
					// load nodes that the fixpoint graph does not need, which LessEqual reports as a missing edge; that
					// observation was not triaged (DESIGN.md section 7.6) and is not claimed either way
					st.initialPairStoppedAtCall++
					break
				}
			}
			if msg := v.Transfer(ins, lo); msg != "" {
				break // the small graph lacks what the instruction expects: discarded
			}
			if msg := v.Transfer(ins, hi); msg != "" {
				break
			}
			st.monoFromInitial++
			if ok, reason := lo.LessEqual(hi); !ok {
				return fmt.Sprintf("%s: transfer function of %q is not monotone: the function's initial graph and the fixpoint graph at the block start were ordered, the outputs are not (%s)", where, ins, reason)
			}
		}
	}
	return ""
}

func c15Canonical(prog *escape.ProgramAnalysisState) map[string]string {
	m := map[string]string{}
	for _, v := range prog.VerifFuncs() {
		if v.Overflow() {
			continue
		}
		m[v.Fn().String()] = v.Final().VerifCanonical()
	}
	return m
}

func c15Program(files map[string]string, pick func(n int, label string) int, st *c15Stats) (string, int) {
	prog, pan, err := c15Escape(files)
	if err != nil {
		return "HARNESS: " + err.Error(), 0
	}
	if pan != "" || prog == nil {
		return "", 0 // crashes belong to C07
	}
	fs := prog.VerifFuncs()
	for _, v := range fs {
		if v.Overflow() {
			continue
		}
		if msg := c15Function(v, pick, st); msg != "" {
			return msg, len(fs)
		}
	}
	// order independence: the function worklist is seeded from map iteration, so another run processes the functions
	// in another order; the summaries must be the same up to node numbering
	base := c15Canonical(prog)
	for rep := 0; rep < 2; rep++ {
		prog2, pan2, _ := c15Escape(files)
		if pan2 != "" || prog2 == nil {
			break
		}
		other := c15Canonical(prog2)
		for f, c := range base {
			if o, ok := other[f]; ok && o != c {
				return fmt.Sprintf("the escape summary of %s differs between two runs of the analysis on the same program (the order in which functions and blocks are processed changes the fixpoint)", f), len(fs)
			}
		}
	}
	return "", len(fs)
}

func c15Profile(t *rapid.T) *gogen.Profile {
	switch gogen.Uniform(t, 3, "profile") {
	case 0:
		return gogen.ConcurrentProfile(nil)
	case 1:
		return gogen.PointerProfile(nil)
	}
	return gogen.FlowProfile(nil)
}

func TestC15(t *testing.T) {
	rec := core.NewRecorder("C15", env, "cases = generated programs (concurrent, pointer and flow profiles) analysed by the escape analysis; "+
		"for every summarised function the initial, block-end and final graphs plus rapid-weakened variants (joined with another graph of the "+
		"function, statuses raised) are used as operands; oracle: idempotence, commutativity, associativity of Merge, upper bound, a<=b => "+
		"a join b = b, status closure, monotonicity of every instruction's real transfer function along each block (P <= P' => T(P) <= T(P')), and "+
		"equality of the final summaries (up to node numbering) across repeated analyses whose worklists are seeded in different orders; "+
		"non-trivial = program with incomparable operand pairs and strictly ordered monotonicity inputs; distinct = hash(program)")
	rec.Assumptions = []string{"weakened graphs on which a transfer function panics are discarded (they may violate internal invariants)",
		"worklist orders are sampled through Go's map iteration order, not enumerated"}
	defer rec.Flush()
	replayKnown(t, "C15")
	rapidSetup(env.Pick(2400, 24000), 15)
	rapid.Check(t, func(rt *rapid.T) {
		prog := gogen.Generate(rt, c15Profile(rt))
		files := map[string]string{"main.go": prog.Main, "prelude.go": gogen.AnalysedPrelude}
		var st c15Stats
		// the choices made inside the law checks come from one rapid-drawn seed (a rapid draw per choice would cost more
		// than the analysis); the sequence is a pure function of that seed
		seed := rapid.Uint64().Draw(rt, "lawseed")
		pick := func(n int, label string) int {
			if n <= 1 {
				return 0
			}
			seed = seed*6364136223846793005 + 1442695040888963407
			return int((seed >> 33) % uint64(n))
		}
		msg, nf := c15Program(files, pick, &st)
		label := "no-feature"
		if fl := prog.FeatList(); len(fl) > 0 {
			label = fl[0]
		}
		rec.Case(core.Hash(prog.Main), st.incomparable > 0 && st.strict > 0, []string{"profile:" + label}, func() any {
			return map[string]any{"program_from_first_function": core.Truncate(afterDecls(prog.Main), 40), "functions": nf, "law_instances": st.laws,
				"incomparable_pairs": st.incomparable, "monotonicity_steps": st.mono, "with_strictly_larger_input": st.strict}
		})
		rec.Count("law_instances", st.laws)
		rec.Count("monotonicity_steps", st.mono)
		rec.Count("monotonicity_steps_initial_vs_fixpoint", st.monoFromInitial)
		if strings.HasPrefix(msg, "HARNESS") {
			rt.Fatalf("%s", msg)
		}
		if msg != "" {
			sig := "law"
			switch {
			case strings.Contains(msg, "not monotone"):
				sig = "non-monotone"
			case strings.Contains(msg, "differs between two runs"):
				sig = "order-dependent"
			case strings.Contains(msg, "idempotent"), strings.Contains(msg, "commutative"), strings.Contains(msg, "associative"), strings.Contains(msg, "upper bound"):
				sig = "lattice-law"
			case strings.Contains(msg, "status propagation"):
				sig = "status-closure"
			}
			files["lawseed.txt"] = fmt.Sprint(seed)
			m := env.Report(core.Violation{ID: "C15", Signature: sig, What: msg, Files: files, Kind: "c15"})
			rt.Fatalf("%s", m)
		}
	})
}

func init() {
	replayers["c15"] = func(dir string) string {
		files := map[string]string{}
		for _, n := range []string{"main.go", "prelude.go"} {
			b, err := os.ReadFile(filepath.Join(dir, n))
			if err != nil {
				return "HARNESS cannot read " + n
			}
			files[n] = string(b)
		}
		// the law checks are re-run under several choice sequences
		for s := uint64(1); s <= 12; s++ {
			seed := s * 7919
			pick := func(n int, label string) int {
				if n <= 1 {
					return 0
				}
				seed = seed*6364136223846793005 + 1442695040888963407
				return int((seed >> 33) % uint64(n))
			}
			var st c15Stats
			if msg, _ := c15Program(files, pick, &st); msg != "" {
				return msg
			}
		}
		return ""
	}
}

var _ = ssa.NewProgram

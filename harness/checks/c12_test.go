package checks

import (
	"encoding/json"
	"fmt"
	"go/constant"
	"os"
	"path/filepath"
	"sort"
	"strings"
	"testing"

	"github.com/awslabs/ar-go-tools/analysis/config"
	"github.com/awslabs/ar-go-tools/analysis/dataflow"
	"github.com/awslabs/ar-go-tools/analysis/reachability"
	"github.com/awslabs/ar-go-tools/verifharness/core"
	"github.com/awslabs/ar-go-tools/verifharness/gogen"
	"github.com/awslabs/ar-go-tools/verifharness/native"
	"go/types"
	"golang.org/x/tools/go/callgraph"
	"golang.org/x/tools/go/ssa"
	"golang.org/x/tools/go/ssa/ssautil"
	"pgregory.net/rapid"
)

// C12 / C18: dynamic ground truth = functions entered (enter(id) at the start of every function and closure body) and
// (call-site line, callee id) pairs read off the native call stack.

type dynCalls struct {
	entered map[int]bool
	pairs   map[[2]int]bool // (line of the call site, id of the entered function)
}

func dynamicCalls(res *native.Result) dynCalls {
	d := dynCalls{entered: map[int]bool{}, pairs: map[[2]int]bool{}}
	for _, r := range res.Runs {
		for _, e := range r.Entered {
			d.entered[e] = true
		}
		for _, c := range r.Calls {
			var line, id int
			if n, _ := fmt.Sscanf(c, "%d|%d", &line, &id); n == 2 {
				d.pairs[[2]int{line, id}] = true
			}
		}
	}
	return d
}

// enterIDs maps enter ids to the SSA functions whose body starts with enter(id) (several for generic instances).
func enterIDs(prog *ssa.Program) map[int][]*ssa.Function {
	m := map[int][]*ssa.Function{}
	for f := range ssautil.AllFunctions(prog) {
		for _, b := range f.Blocks {
			for _, ins := range b.Instrs {
				c, ok := ins.(*ssa.Call)
				if !ok {
					continue
				}
				callee := c.Call.StaticCallee()
				if callee == nil || callee.Name() != "enter" || len(c.Call.Args) != 1 {
					continue
				}
				if k, ok := c.Call.Args[0].(*ssa.Const); ok && k.Value != nil && k.Value.Kind() == constant.Int {
					if v, exact := constant.Int64Val(k.Value); exact {
						m[int(v)] = append(m[int(v)], f)
					}
				}
			}
		}
	}
	return m
}

func isWrapper(f *ssa.Function) bool {
	s := f.Synthetic
	return strings.HasPrefix(s, "wrapper for") || strings.HasPrefix(s, "bound method wrapper for") || strings.HasPrefix(s, "thunk for")
}

func sameFunc(a, b *ssa.Function) bool {
	if a == b {
		return true
	}
	if a.Origin() != nil && (a.Origin() == b || a.Origin() == b.Origin()) {
		return true
	}
	if b.Origin() != nil && b.Origin() == a {
		return true
	}
	return false
}

// reachesThroughWrappers: target is f or is called by f through a chain of synthetic wrappers (call-graph edges).
func reachesThroughWrappers(cg *callgraph.Graph, f *ssa.Function, target *ssa.Function, depth int) bool {
	if sameFunc(f, target) {
		return true
	}
	if depth <= 0 || !isWrapper(f) {
		return false
	}
	n := cg.Nodes[f]
	if n == nil {
		return false
	}
	for _, e := range n.Out {
		if reachesThroughWrappers(cg, e.Callee.Func, target, depth-1) {
			return true
		}
	}
	return false
}

func lineOf(prog *ssa.Program, ins ssa.Instruction) int {
	p := prog.Fset.Position(ins.Pos())
	if !strings.HasSuffix(p.Filename, "main.go") {
		return 0
	}
	return p.Line
}

// callInstrsByLine indexes the call instructions (call, defer, go) of the main file by line and the defers by function.
func callInstrs(prog *ssa.Program) (byLine map[int][]ssa.CallInstruction, defersOf map[*ssa.Function][]ssa.CallInstruction) {
	byLine = map[int][]ssa.CallInstruction{}
	defersOf = map[*ssa.Function][]ssa.CallInstruction{}
	for f := range ssautil.AllFunctions(prog) {
		for _, b := range f.Blocks {
			for _, ins := range b.Instrs {
				ci, ok := ins.(ssa.CallInstruction)
				if !ok {
					continue
				}
				if l := lineOf(prog, ins); l > 0 {
					byLine[l] = append(byLine[l], ci)
				}
				if _, isDefer := ins.(*ssa.Defer); isDefer {
					defersOf[f] = append(defersOf[f], ci)
				}
			}
		}
	}
	return
}

// funcsAtLine returns every function of main.go whose syntax spans the line.
func funcsAtLine(prog *ssa.Program, line int) []*ssa.Function {
	var out []*ssa.Function
	for f := range ssautil.AllFunctions(prog) {
		syn := f.Syntax()
		if syn == nil {
			continue
		}
		p0, p1 := prog.Fset.Position(syn.Pos()), prog.Fset.Position(syn.End())
		if strings.HasSuffix(p0.Filename, "main.go") && p0.Line <= line && line <= p1.Line {
			out = append(out, f)
		}
	}
	return out
}

// funcAtLine returns the innermost function of main.go whose syntax spans the line.
func funcAtLine(prog *ssa.Program, line int) *ssa.Function {
	var best *ssa.Function
	bestSpan := 1 << 30
	for f := range ssautil.AllFunctions(prog) {
		syn := f.Syntax()
		if syn == nil {
			continue
		}
		p0, p1 := prog.Fset.Position(syn.Pos()), prog.Fset.Position(syn.End())
		if !strings.HasSuffix(p0.Filename, "main.go") {
			continue
		}
		if p0.Line <= line && line <= p1.Line && p1.Line-p0.Line < bestSpan {
			best, bestSpan = f, p1.Line-p0.Line
		}
	}
	return best
}

type c12Stats struct {
	pairs, dynForms, multi int
}

// c12Judge compares the dynamic facts with the analyzer state; returns "" or the first violation.
func c12Judge(files map[string]string, d dynCalls) (string, c12Stats, error) {
	var st c12Stats
	l, err := core.LoadSource(files)
	if err != nil {
		return "", st, err
	}
	cfg := core.MustConfig(core.TaintOpts{}.YAML())
	var state *dataflow.AnalyzerState
	var serr error
	var pan string
	func() {
		defer func() {
			if r := recover(); r != nil {
				pan = fmt.Sprint(r)
			}
		}()
		state, serr = dataflow.NewInitializedAnalyzerState(l.Prog, nil, config.NewLogGroup(cfg), cfg)
	}()
	if pan != "" {
		return "analyzer state construction panicked: " + pan, st, nil
	}
	if serr != nil {
		return "", st, nil // loud failure, not judged here
	}
	ids := enterIDs(l.Prog)
	reach := state.ReachableFunctions()
	var entered []int
	for id := range d.entered {
		entered = append(entered, id)
	}
	sort.Ints(entered)
	for _, id := range entered {
		fs := ids[id]
		if len(fs) == 0 {
			continue
		}
		ok := false
		for _, f := range fs {
			if reach[f] {
				ok = true
			}
		}
		if !ok {
			return fmt.Sprintf("function %v was executed natively but is not in the analyzer's reachable-function set", fs[0]), st, nil
		}
	}
	cg := state.PointerAnalysis.CallGraph
	byLine, defersOf := callInstrs(l.Prog)
	var pairs [][2]int
	for p := range d.pairs {
		pairs = append(pairs, p)
	}
	sort.Slice(pairs, func(i, j int) bool {
		return pairs[i][0] < pairs[j][0] || (pairs[i][0] == pairs[j][0] && pairs[i][1] < pairs[j][1])
	})
	calleesPerLine := map[int]map[int]bool{}
	for _, p := range pairs {
		line, id := p[0], p[1]
		targets := ids[id]
		if len(targets) == 0 {
			continue
		}
		st.pairs++
		if calleesPerLine[line] == nil {
			calleesPerLine[line] = map[int]bool{}
		}
		calleesPerLine[line][id] = true
		// candidates: the call instructions on that line, and - because a deferred call runs at the function's exit, i.e.
		// on the line of a return statement or closing brace - the defers of every function whose syntax spans the line
		cands := append([]ssa.CallInstruction{}, byLine[line]...)
		for _, f := range funcsAtLine(l.Prog, line) {
			cands = append(cands, defersOf[f]...)
		}
		if len(cands) == 0 {
			continue
		}
		edgeOK, resolveOK := false, false
		nonStatic := false
		for _, ci := range cands {
			if ci.Common().StaticCallee() == nil {
				nonStatic = true
			}
			if n := cg.Nodes[ci.Parent()]; n != nil {
				for _, e := range n.Out {
					if e.Site != ci {
						continue
					}
					for _, t := range targets {
						if reachesThroughWrappers(cg, e.Callee.Func, t, 3) {
							edgeOK = true
						}
					}
				}
			}
			func() {
				defer func() { _ = recover() }()
				rc, err := state.ResolveCallee(ci, false)
				if err != nil {
					return
				}
				for f := range rc {
					for _, t := range targets {
						if reachesThroughWrappers(cg, f, t, 3) {
							resolveOK = true
						}
					}
				}
			}()
		}
		if nonStatic {
			st.dynForms++
		}
		if !edgeOK {
			return fmt.Sprintf("call on line %d entered %v at run time, but no call-graph edge of a call instruction on that line (or deferred in that function) leads to it", line, targets[0]), st, nil
		}
		if !resolveOK {
			return fmt.Sprintf("call on line %d entered %v at run time, but callee resolution does not contain it", line, targets[0]), st, nil
		}
	}
	for _, m := range calleesPerLine {
		if len(m) >= 2 {
			st.multi++
		}
	}
	return "", st, nil
}

func dispatchLabels(p *gogen.Program) []string { return p.FeatList() }

func dynReplayFiles(c *flowCase) map[string]string {
	files := c.files()
	b, _ := json.MarshalIndent(map[string]any{"valuations": c.Vals}, "", " ")
	files["expect.json"] = string(b)
	return files
}

func TestC12(t *testing.T) {
	rec := core.NewRecorder("C12", env, "cases = dispatch-profile programs (static calls, methods, interface methods with three implementations, "+
		"function values, closures (also nested and returned), method values and expressions, generic instances, deferred calls, init) with "+
		"enter(id) at the start of every function and closure body, executed natively; oracle: every entered function is in "+
		"ReachableFunctions(); every (call-site line, entered function) pair read off the native stack has a call-graph edge (through "+
		"synthetic wrappers) from a call instruction on that line (or a defer of that function) and is in ResolveCallee; non-trivial = "+
		">= 2 call sites without static callee exercised and >= 1 line with >= 2 observed callees; distinct = hash(program, valuations)")
	defer rec.Flush()
	replayKnown(t, "C12")
	off := excluded()
	nv := 6
	if env.Thorough() {
		nv = 20
	}
	tp := &twoPass{id: "C12", salt: 12, checks: env.Pick(700, 7000), rec: rec,
		gen: func(t *rapid.T) *flowCase { return genFlowCase(t, gogen.DispatchProfile(off), nv) },
		judge: func(rt *rapid.T, c *flowCase, res *native.Result) {
			d := dynamicCalls(res)
			msg, st, err := c12Judge(c.files(), d)
			if err != nil {
				rt.Fatalf("HARNESS: %v", err)
			}
			rec.Case(c.Key, st.dynForms >= 2 && st.multi >= 1, dispatchLabels(c.Prog), func() any {
				return map[string]any{"program_from_first_function": core.Truncate(afterDecls(c.Prog.Main), 50), "entered_functions": len(d.entered),
					"dynamic_call_pairs": st.pairs, "pairs_at_non_static_call_sites": st.dynForms, "lines_with_several_callees": st.multi}
			})
			rec.Count("dynamic_call_pairs_checked", st.pairs)
			if msg != "" {
				sig := "missing-edge"
				if strings.Contains(msg, "reachable-function set") {
					sig = "not-reachable"
				} else if strings.Contains(msg, "callee resolution") {
					sig = "not-resolved"
				} else if strings.Contains(msg, "panicked") {
					sig = "panic"
				}
				m := env.Report(core.Violation{ID: "C12", Signature: sig, What: msg, Files: dynReplayFiles(c), Kind: "c12"})
				rt.Fatalf("%s", m)
			}
		}, opt: native.Options{InProcess: true}}
	tp.run(t)
}

// ---- C18 ------------------------------------------------------------------------------------------------------

// c18DeadCodeSkipped counts the programs on which the containment law was not judged (recorded finding).
var c18DeadCodeSkipped int

func c18Judge(files map[string]string, d dynCalls) (string, int, error) {
	l, err := core.LoadSource(files)
	if err != nil {
		return "", 0, err
	}
	cfg := core.MustConfig(core.TaintOpts{}.YAML())
	var msg string
	nonStaticOnly := 0
	func() {
		defer func() {
			if r := recover(); r != nil {
				msg = fmt.Sprintf("reachability analysis panicked: %v", r)
			}
		}()
		state, err := dataflow.NewAnalyzerState(l.Prog, nil, config.NewLogGroup(cfg), cfg, []func(*dataflow.AnalyzerState){})
		if err != nil {
			return
		}
		all := ssautil.AllFunctions(l.Prog)
		R := map[[2]bool]map[*ssa.Function]bool{}
		for _, m := range []bool{false, true} {
			for _, i := range []bool{false, true} {
				R[[2]bool{m, i}] = reachability.FindReachable(state, m, i, nil)
			}
		}
		full := R[[2]bool{false, false}]
		// (a) executed functions are reported
		ids := enterIDs(l.Prog)
		var entered []int
		for id := range d.entered {
			entered = append(entered, id)
		}
		sort.Ints(entered)
		static := map[*ssa.Function]bool{}
		for f := range all {
			for _, b := range f.Blocks {
				for _, ins := range b.Instrs {
					if ci, ok := ins.(ssa.CallInstruction); ok {
						if sc := ci.Common().StaticCallee(); sc != nil {
							static[sc] = true
						}
					}
				}
			}
		}
		for _, id := range entered {
			fs := ids[id]
			if len(fs) == 0 {
				continue
			}
			ok, isStatic := false, false
			for _, f := range fs {
				if full[f] {
					ok = true
				}
				if static[f] {
					isStatic = true
				}
			}
			if !isStatic {
				nonStaticOnly++
			}
			if !ok {
				msg = fmt.Sprintf("function %v was executed natively but is not reported reachable", fs[0])
				return
			}
		}
		// (b) pointer-analysis call graph reachability is contained
		st2, err := dataflow.NewInitializedAnalyzerState(l.Prog, nil, config.NewLogGroup(cfg), cfg)
		// Recorded finding (cg-reachable-through-dead-code): the pointer analysis also analyses functions that are not
		// reachable, so objects created only by dead code reach call sites of live code and add call-graph edges; the
		// reachability tool, which only follows live code, does not report their targets. With the finding recorded, the
		// containment law is judged only on programs without dead code (every function with a body is reported).
		deadCode := false
		if excluded()["dead-code-cg"] && !replaying {
			for f := range all {
				if f != nil && f.Synthetic == "" && f.Pkg != nil && f.Pkg.Pkg.Name() == "main" && len(f.Blocks) > 0 && !full[f] {
					deadCode = true
				}
			}
			if deadCode {
				c18DeadCodeSkipped++
			}
		}
		if err == nil && st2.PointerAnalysis != nil && !deadCode {
			for f := range dataflow.CallGraphReachable(st2.PointerAnalysis.CallGraph, false, false) {
				if f == nil || f.Synthetic != "" || f.Pkg == nil {
					continue
				}
				if !full[f] {
					msg = fmt.Sprintf("function %v is reachable in the pointer-analysis call graph but not reported reachable", f)
					return
				}
			}
		}
		// (c) contained in all functions, (d) monotone in the root selection
		universe := programFunctions(l.Prog)
		for k, r := range R {
			for f := range r {
				if !all[f] && !inUniverse(universe, f) {
					msg = fmt.Sprintf("reported function %v (nomain=%v noinit=%v) is not a function of the program", f, k[0], k[1])
					return
				}
			}
		}
		sub := func(a, b map[*ssa.Function]bool) *ssa.Function {
			for f := range a {
				if !b[f] {
					return f
				}
			}
			return nil
		}
		for _, i := range []bool{false, true} {
			if f := sub(R[[2]bool{true, i}], R[[2]bool{false, i}]); f != nil {
				msg = fmt.Sprintf("excluding main as a root adds %v to the reachable set (noinit=%v)", f, i)
				return
			}
		}
		for _, m := range []bool{false, true} {
			if f := sub(R[[2]bool{m, true}], R[[2]bool{m, false}]); f != nil {
				msg = fmt.Sprintf("excluding init as a root adds %v to the reachable set (nomain=%v)", f, m)
				return
			}
		}
	}()
	return msg, nonStaticOnly, nil
}

func TestC18(t *testing.T) {
	rec := core.NewRecorder("C18", env, "cases = dispatch-profile programs executed natively (enter(id) in every function and closure); oracle: "+
		"(a) every executed function is in FindReachable(main and init as roots), (b) every non-synthetic function reachable in the "+
		"pointer-analysis call graph is in it, (c) every reported set is contained in the program's functions, (d) excluding main or init "+
		"as roots never adds a function; non-trivial = >= 1 executed function that is not the static callee of any call instruction "+
		"(reached only through a closure, function value, interface or method value); distinct = hash(program, valuations)")
	defer rec.Flush()
	replayKnown(t, "C18")
	off := excluded()
	nv := 6
	if env.Thorough() {
		nv = 20
	}
	tp := &twoPass{id: "C18", salt: 18, checks: env.Pick(700, 7000), rec: rec,
		gen: func(t *rapid.T) *flowCase { return genFlowCase(t, gogen.DispatchProfile(off), nv) },
		judge: func(rt *rapid.T, c *flowCase, res *native.Result) {
			d := dynamicCalls(res)
			skippedBefore := c18DeadCodeSkipped
			msg, nso, err := c18Judge(c.files(), d)
			if err != nil {
				rt.Fatalf("HARNESS: %v", err)
			}
			if c18DeadCodeSkipped > skippedBefore {
				rec.Count("excluded_by_known_finding", 1)
				rec.Count("containment_law_not_judged_dead_code", 1)
			}
			rec.Case(c.Key, nso >= 1, dispatchLabels(c.Prog), func() any {
				return map[string]any{"program_from_first_function": core.Truncate(afterDecls(c.Prog.Main), 50), "entered_functions": len(d.entered),
					"executed_functions_without_static_call": nso}
			})
			if msg != "" {
				sig := strings.Join(strings.Fields(msg)[:3], "-")
				if strings.Contains(msg, "executed natively") {
					sig = "executed-not-reachable"
				} else if strings.Contains(msg, "pointer-analysis call graph") {
					sig = "cg-reachable-not-reported"
				}
				m := env.Report(core.Violation{ID: "C18", Signature: sig, What: msg, Files: dynReplayFiles(c), Kind: "c18"})
				rt.Fatalf("%s", m)
			}
		}, opt: native.Options{InProcess: true}}
	tp.run(t)
}

func dynReplay(dir string, judge func(files map[string]string, d dynCalls) string) string {
	return dynReplayRes(dir, func(files map[string]string, res *native.Result) string { return judge(files, dynamicCalls(res)) })
}

func dynReplayRes(dir string, judge func(files map[string]string, res *native.Result) string) string {
	return dynReplayOpt(dir, native.Options{Workers: 4}, nil, 1, judge)
}

// dynReplayOpt re-runs a stored program natively (rounds times, results accumulated) and re-judges it.
func dynReplayOpt(dir string, opt native.Options, gomaxprocs []int, rounds int, judge func(files map[string]string, res *native.Result) string) string {
	replaying = true
	defer func() { replaying = false }()
	main, err := os.ReadFile(filepath.Join(dir, "main.go"))
	if err != nil {
		return "HARNESS cannot read main.go"
	}
	var exp struct {
		Valuations []uint64 `json:"valuations"`
	}
	b, _ := os.ReadFile(filepath.Join(dir, "expect.json"))
	_ = json.Unmarshal(b, &exp)
	if len(exp.Valuations) == 0 {
		exp.Valuations = []uint64{0, 4095}
	}
	c := &flowCase{Prog: &gogen.Program{Main: string(main)}, Vals: exp.Valuations, Key: core.Hash(string(main))}
	sdir, _ := os.MkdirTemp(env.Out, "replay-native")
	acc := &native.Result{Key: c.Key}
	for r := 0; r < rounds; r++ {
		u := c.unit()
		u.GoMaxProcs = gomaxprocs
		m, err := native.RunBatch(fmt.Sprintf("%s-%d", sdir, r), []native.Unit{u}, opt)
		if err != nil || m[c.Key] == nil || m[c.Key].BuildErr != "" {
			return fmt.Sprintf("HARNESS native replay failed: %v", err)
		}
		acc.Runs = append(acc.Runs, m[c.Key].Runs...)
	}
	return judge(c.files(), acc)
}

func init() {
	replayers["c12"] = func(dir string) string {
		return dynReplay(dir, func(files map[string]string, d dynCalls) string {
			msg, _, err := c12Judge(files, d)
			if err != nil {
				return "HARNESS: " + err.Error()
			}
			return msg
		})
	}
	replayers["c18"] = func(dir string) string {
		return dynReplay(dir, func(files map[string]string, d dynCalls) string {
			msg, _, err := c18Judge(files, d)
			if err != nil {
				return "HARNESS: " + err.Error()
			}
			return msg
		})
	}
}

// programFunctions is the set of all named functions and methods of the program (package members and the method sets
// of all named types) together with what ssautil.AllFunctions finds.
func programFunctions(prog *ssa.Program) map[*ssa.Function]bool {
	u := map[*ssa.Function]bool{}
	for f := range ssautil.AllFunctions(prog) {
		u[f] = true
	}
	for _, pkg := range prog.AllPackages() {
		for _, m := range pkg.Members {
			switch m := m.(type) {
			case *ssa.Function:
				u[m] = true
			case *ssa.Type:
				mset := prog.MethodSets.MethodSet(m.Type())
				for i := 0; i < mset.Len(); i++ {
					if f := prog.MethodValue(mset.At(i)); f != nil {
						u[f] = true
					}
				}
				pset := prog.MethodSets.MethodSet(typesPointer(m))
				for i := 0; i < pset.Len(); i++ {
					if f := prog.MethodValue(pset.At(i)); f != nil {
						u[f] = true
					}
				}
			}
		}
	}
	return u
}

// inUniverse: f, the function it is an anonymous function of, or the generic function it instantiates is a function of
// the program; synthetic wrappers belong to the program by construction.
func inUniverse(u map[*ssa.Function]bool, f *ssa.Function) bool {
	for g := f; g != nil; g = g.Parent() {
		if u[g] || g.Synthetic != "" {
			return true
		}
		if o := g.Origin(); o != nil && u[o] {
			return true
		}
	}
	return false
}

func typesPointer(m *ssa.Type) types.Type { return types.NewPointer(m.Type()) }

package checks

import (
	"fmt"
	"os"
	"path/filepath"
	"sort"
	"strings"
	"testing"

	"github.com/awslabs/ar-go-tools/analysis/config"
	"github.com/awslabs/ar-go-tools/analysis/defers"
	"github.com/awslabs/ar-go-tools/verifharness/core"
	"github.com/awslabs/ar-go-tools/verifharness/gogen"
	"golang.org/x/tools/go/ssa"
	"pgregory.net/rapid"
)

// C16: the defer analysis computes exactly the possible defer stacks. Reference model: explicit-state enumeration
// over the function's SSA control-flow graph.

// ---- body generator -------------------------------------------------------------------------------------------

// A body is a tree of statement nodes; choices come from a chooser so that the same grammar serves rapid sampling
// and exhaustive enumeration.
type chooser interface {
	pick(n int, label string) int
}

type rapidChooser struct{ t *rapid.T }

func (r rapidChooser) pick(n int, label string) int { return gogen.Uniform(r.t, n, label) }

// listChooser replays a fixed list of choices and records the arity of each choice point (for enumeration).
type listChooser struct {
	choices []int
	arity   []int
	pos     int
}

func (l *listChooser) pick(n int, label string) int {
	c := 0
	if l.pos < len(l.choices) {
		c = l.choices[l.pos]
	}
	if l.pos < len(l.arity) {
		l.arity[l.pos] = n
	} else {
		l.arity = append(l.arity, n)
	}
	l.pos++
	if c >= n {
		c = n - 1
	}
	return c
}

type bodyGen struct {
	ch       chooser
	b        strings.Builder
	budget   int // remaining statement nodes
	ndefer   int
	ncond    int
	labels   []string // labels defined so far at function top level (targets of backward gotos)
	nlabel   int
	inLoop   int
	indent   int
	maxDepth int
}

func (g *bodyGen) line(format string, a ...any) {
	g.b.WriteString(strings.Repeat("\t", g.indent+1))
	fmt.Fprintf(&g.b, format, a...)
	g.b.WriteString("\n")
}

func (g *bodyGen) cond() string {
	g.ncond++
	return fmt.Sprintf("c(%d)", g.ncond)
}

func (g *bodyGen) block(depth int, n int) {
	for i := 0; i < n && g.budget > 0; i++ {
		g.stmt(depth)
	}
}

func (g *bodyGen) stmt(depth int) {
	g.budget--
	kinds := []string{"defer", "defer", "defer", "if", "ifelse", "for", "forclause", "switch", "return", "panic", "nop", "deferclosure", "label", "goto"}
	if g.inLoop > 0 {
		kinds = append(kinds, "break", "continue")
	}
	k := kinds[g.ch.pick(len(kinds), "kind")]
	if depth >= g.maxDepth {
		switch k {
		case "if", "ifelse", "for", "forclause", "switch":
			k = "defer"
		}
	}
	switch k {
	case "defer":
		g.ndefer++
		g.line("defer d(%d)", g.ndefer)
	case "deferclosure":
		g.ndefer++
		g.line("defer func() { d(%d) }()", g.ndefer)
	case "if":
		g.line("if %s {", g.cond())
		g.indent++
		g.block(depth+1, 1+g.ch.pick(2, "n"))
		g.indent--
		g.line("}")
	case "ifelse":
		g.line("if %s {", g.cond())
		g.indent++
		g.block(depth+1, 1+g.ch.pick(2, "n"))
		g.indent--
		g.line("} else {")
		g.indent++
		g.block(depth+1, 1+g.ch.pick(2, "n"))
		g.indent--
		g.line("}")
	case "for":
		g.line("for %s {", g.cond())
		g.indent++
		g.inLoop++
		g.block(depth+1, 1+g.ch.pick(2, "n"))
		g.inLoop--
		g.indent--
		g.line("}")
	case "forclause":
		g.ncond++
		g.line("for i%d := 0; i%d < n(); i%d++ {", g.ncond, g.ncond, g.ncond)
		g.indent++
		g.inLoop++
		g.block(depth+1, 1+g.ch.pick(2, "n"))
		g.inLoop--
		g.indent--
		g.line("}")
	case "switch":
		g.line("switch n() {")
		g.line("case 0:")
		g.indent++
		g.block(depth+1, 1)
		g.indent--
		g.line("case 1:")
		g.indent++
		g.block(depth+1, 1)
		if g.ch.pick(3, "ft") == 0 {
			g.line("fallthrough")
		}
		g.indent--
		g.line("default:")
		g.indent++
		g.block(depth+1, 1)
		g.indent--
		g.line("}")
	case "return":
		g.line("if %s {", g.cond())
		g.line("\treturn")
		g.line("}")
	case "panic":
		g.line("if %s {", g.cond())
		g.line("\tpanic(\"p\")")
		g.line("}")
	case "break":
		g.line("if %s {", g.cond())
		g.line("\tbreak")
		g.line("}")
	case "continue":
		g.line("if %s {", g.cond())
		g.line("\tcontinue")
		g.line("}")
	case "label":
		if depth == 0 {
			g.nlabel++
			l := fmt.Sprintf("L%d", g.nlabel)
			g.labels = append(g.labels, l)
			g.line("%s:", l)
			g.line("nop()")
		} else {
			g.line("nop()")
		}
	case "goto":
		if len(g.labels) > 0 {
			l := g.labels[g.ch.pick(len(g.labels), "lbl")]
			g.line("if %s {", g.cond())
			g.line("\tgoto %s", l)
			g.line("}")
		} else {
			g.line("nop()")
		}
	default:
		g.line("nop()")
	}
}

const c16Prelude = `package main

var opaque [64]bool
var k int

func c(i int) bool { return opaque[i%64] }
func n() int       { return k }
func d(i int)      {}
func nop()         {}

func main() { f() }

`

func c16Program(ch chooser, size int) (string, int) {
	g := &bodyGen{ch: ch, budget: size, maxDepth: 3}
	g.block(0, size)
	body := g.b.String()
	// unused labels are compile errors: reference every label once with a guarded goto at the end
	var tail strings.Builder
	for _, l := range g.labels {
		g.ncond++
		fmt.Fprintf(&tail, "\tif c(%d) {\n\t\tgoto %s\n\t}\n", g.ncond, l)
	}
	return c16Prelude + "func f() {\n" + body + tail.String() + "}\n", g.ndefer
}

// ---- reference model ------------------------------------------------------------------------------------------

type c16Expect struct {
	Bounded bool
	Sets    map[*ssa.RunDefers][]string // canonical stack strings, sorted
	Multi   bool                        // some exit has >= 2 stacks
	NDefers int
}

func stackKey(s []defers.InstrIndices) string {
	var p []string
	for _, e := range s {
		p = append(p, fmt.Sprintf("%d.%d", e.Block, e.Ins))
	}
	return strings.Join(p, " ")
}

// c16Model enumerates (block, stack) states on the CFG.
func c16Model(fn *ssa.Function) c16Expect {
	exp := c16Expect{Bounded: true, Sets: map[*ssa.RunDefers][]string{}}
	if len(fn.Blocks) == 0 {
		return exp
	}
	// reachability from the entry over Succs
	reach := map[*ssa.BasicBlock]bool{}
	var walk func(b *ssa.BasicBlock)
	walk = func(b *ssa.BasicBlock) {
		if reach[b] {
			return
		}
		reach[b] = true
		for _, s := range b.Succs {
			walk(s)
		}
	}
	walk(fn.Blocks[0])
	// a block is on a cycle iff it can reach itself through >= 1 edge
	onCycle := func(b *ssa.BasicBlock) bool {
		seen := map[*ssa.BasicBlock]bool{}
		var stack []*ssa.BasicBlock
		stack = append(stack, b.Succs...)
		for len(stack) > 0 {
			x := stack[len(stack)-1]
			stack = stack[:len(stack)-1]
			if x == b {
				return true
			}
			if seen[x] {
				continue
			}
			seen[x] = true
			stack = append(stack, x.Succs...)
		}
		return false
	}
	for b := range reach {
		hasDefer := false
		for _, ins := range b.Instrs {
			if _, ok := ins.(*ssa.Defer); ok {
				hasDefer = true
				exp.NDefers++
			}
		}
		if hasDefer && onCycle(b) {
			exp.Bounded = false
		}
	}
	if !exp.Bounded {
		return exp
	}
	type state struct {
		b     *ssa.BasicBlock
		stack string
	}
	seen := map[state]bool{}
	sets := map[*ssa.RunDefers]map[string]bool{}
	var visit func(b *ssa.BasicBlock, st []defers.InstrIndices)
	visit = func(b *ssa.BasicBlock, st []defers.InstrIndices) {
		k := state{b, stackKey(st)}
		if seen[k] {
			return
		}
		seen[k] = true
		cur := append([]defers.InstrIndices{}, st...)
		for j, ins := range b.Instrs {
			switch r := ins.(type) {
			case *ssa.Defer:
				cur = append(cur, defers.InstrIndices{Block: b.Index, Ins: j})
			case *ssa.RunDefers:
				if sets[r] == nil {
					sets[r] = map[string]bool{}
				}
				sets[r][stackKey(cur)] = true
				cur = nil
			}
		}
		for _, s := range b.Succs {
			visit(s, cur)
		}
	}
	visit(fn.Blocks[0], nil)
	for r, m := range sets {
		var l []string
		for s := range m {
			l = append(l, s)
		}
		sort.Strings(l)
		exp.Sets[r] = l
		if len(l) >= 2 {
			exp.Multi = true
		}
	}
	return exp
}

// c16Judge builds the program, runs the tool and compares with the model.
func c16Judge(src string) (string, c16Expect) {
	l, err := core.LoadSource(map[string]string{"main.go": src})
	if err != nil {
		panic(fmt.Sprintf("HARNESS: generated C16 program does not build: %v\n%s", err, src))
	}
	fn := l.Main.Func("f")
	exp := c16Model(fn)
	lg := config.NewLogGroup(config.NewDefault())
	var res defers.Results
	var pan string
	func() {
		defer func() {
			if r := recover(); r != nil {
				pan = fmt.Sprint(r)
			}
		}()
		res = defers.AnalyzeFunction(fn, lg)
	}()
	if pan != "" {
		return "defer analysis panicked: " + pan, exp
	}
	if res.DeferStackBounded != exp.Bounded {
		return fmt.Sprintf("tool says bounded=%v, but a defer lies on a control-flow cycle: %v", res.DeferStackBounded, !exp.Bounded), exp
	}
	if !exp.Bounded {
		return "", exp
	}
	for r, want := range exp.Sets {
		got := res.RunDeferSets[r]
		var gl []string
		for i, s := range got {
			gl = append(gl, stackKey(s))
			if i > 0 {
				// the reported slice must be strictly sorted (the union algorithm relies on it)
				a, b := got[i-1], got[i]
				if !c16Less(a, b) {
					return fmt.Sprintf("reported stack set at block %d is not strictly sorted: %v", r.Block().Index, got), exp
				}
			}
		}
		sort.Strings(gl)
		if strings.Join(gl, "|") != strings.Join(want, "|") {
			return fmt.Sprintf("defer stacks at the exit in block %d: tool reports {%s}, paths of the CFG give {%s}", r.Block().Index,
				strings.Join(gl, " | "), strings.Join(want, " | ")), exp
		}
	}
	for r := range res.RunDeferSets {
		if _, ok := exp.Sets[r]; !ok && len(res.RunDeferSets[r]) > 0 {
			return fmt.Sprintf("tool reports stacks for an exit in block %d that no path reaches", r.Block().Index), exp
		}
	}
	return "", exp
}

func c16Less(a, b defers.Stack) bool {
	for i := 0; i < len(a) && i < len(b); i++ {
		if a[i].Block != b[i].Block {
			return a[i].Block < b[i].Block
		}
		if a[i].Ins != b[i].Ins {
			return a[i].Ins < b[i].Ins
		}
	}
	return len(a) < len(b)
}

func c16Record(rec *core.Recorder, src string, exp c16Expect) {
	nt := exp.NDefers >= 2 && (exp.Multi || !exp.Bounded)
	labels := []string{fmt.Sprintf("bounded:%v", exp.Bounded)}
	if exp.Multi {
		labels = append(labels, "multi-stack-exit")
	}
	for _, k := range []string{"goto", "switch", "fallthrough", "break", "continue", "panic", "for "} {
		if strings.Contains(src, k) {
			labels = append(labels, "has:"+strings.TrimSpace(k))
		}
	}
	rec.Case(core.Hash(src), nt, labels, func() any { return strings.TrimPrefix(src, c16Prelude) })
}

func TestC16(t *testing.T) {
	rec := core.NewRecorder("C16", env, "cases = function bodies over {defer, defer closure, if, if/else, for cond, for clause, switch with "+
		"fallthrough, labels and backward goto, guarded return/panic/break/continue}; thorough tier additionally enumerates every body "+
		"of the grammar with <= 4 statement nodes; oracle: explicit-state enumeration of (block, defer stack) over the SSA control-flow "+
		"graph (bounded <=> no defer on a cycle; exact stack sets per exit); non-trivial = >= 2 defers and (>= 2 distinct stacks at some exit "+
		"or unbounded); distinct = hash of body; execution half: the bodies with >= 2 defers are also built natively and run under pseudo-random "+
		"branch outcomes, every normal exit's executed defer order (reversed) must be a member of the reported set of that exit, a run "+
		"pushing one defer statement twice obliges 'unbounded' (counters native_*)")
	defer rec.Flush()
	replayKnown(t, "C16")
	rapidSetup(env.Pick(12000, 1200000), 16)
	// bodies kept for the execution half (c16n_test.go): the first ones with >= 2 defers, per shard
	nativeMax := env.Pick(2400, 24000)
	var nativeSrcs []string
	nativeSeen := map[string]bool{}
	rapid.Check(t, func(rt *rapid.T) {
		size := 2 + gogen.Uniform(rt, 14, "size")
		src, nd := c16Program(rapidChooser{rt}, size)
		res, exp := c16Judge(src)
		c16Record(rec, src, exp)
		if res == "" && nd >= 2 && len(nativeSrcs) < nativeMax && !nativeSeen[src] {
			nativeSeen[src] = true
			nativeSrcs = append(nativeSrcs, src)
		}
		if res != "" {
			msg := env.Report(core.Violation{ID: "C16", Signature: strings.Fields(res)[0] + "-" + strings.Fields(res)[1], What: res, Files: map[string]string{"main.go": src}, Kind: "c16"})
			rt.Fatalf("%s", msg)
		}
	})
	if t.Failed() {
		return
	}
	// execution half: the kept bodies are built into one native program and run under pseudo-random branch outcomes
	{
		var st c16nStats
		msg, bad, err := c16Native(nativeSrcs, env.Pick(2400, 4800)/env.Pick(8, 8), &st)
		if err != nil {
			t.Fatalf("HARNESS: %v", err)
		}
		rec.Count("native_functions", st.functions)
		rec.Count("native_runs_with_normal_exit", st.normalExits)
		rec.Count("native_exits_judged_against_reported_set", st.judged)
		rec.Count("native_runs_pushing_a_defer_twice", st.multiPush)
		rec.Count("native_functions_with_observed_stack_of_2_or_more", st.nontrivial)
		if msg != "" {
			m := env.Report(core.Violation{ID: "C16", Signature: "native-" + strings.Fields(msg)[0] + "-" + strings.Fields(msg)[1], What: msg, Files: map[string]string{"main.go": bad}, Kind: "c16n"})
			t.Fatalf("%s", m)
		}
	}
	// exhaustive enumeration of small bodies (each shard takes its residue class)
	maxNodes := 3
	if env.Thorough() {
		maxNodes = 4
	}
	count := 0
	var enum func(prefix []int)
	failed := false
	enum = func(prefix []int) {
		if failed {
			return
		}
		lc := &listChooser{choices: prefix}
		src, _ := c16Program(lc, maxNodes)
		if lc.pos > len(prefix) {
			// more choice points than given: extend with every value of the next one
			ar := lc.arity[len(prefix)]
			for v := 0; v < ar; v++ {
				enum(append(append([]int{}, prefix...), v))
			}
			return
		}
		count++
		if count%env.Shards != env.Shard {
			return
		}
		res, exp := c16Judge(src)
		c16Record(rec, src, exp)
		if res != "" {
			failed = true
			msg := env.Report(core.Violation{ID: "C16", Signature: "enum-" + strings.Fields(res)[0], What: res, Files: map[string]string{"main.go": src}, Kind: "c16"})
			t.Fatalf("%s", msg)
		}
	}
	enum(nil)
	rec.Note("exhaustive_bodies_up_to_nodes", maxNodes)
	rec.Note("exhaustive_bodies_total", count)
}

func init() {
	replayers["c16"] = func(dir string) string {
		b, err := os.ReadFile(filepath.Join(dir, "main.go"))
		if err != nil {
			return "HARNESS cannot read main.go"
		}
		res, _ := c16Judge(string(b))
		return res
	}
	replayers["c16n"] = func(dir string) string {
		b, err := os.ReadFile(filepath.Join(dir, "main.go"))
		if err != nil {
			return "HARNESS cannot read main.go"
		}
		if res, _ := c16Judge(string(b)); res != "" {
			return res
		}
		var st c16nStats
		msg, _, err := c16Native([]string{string(b)}, 2000, &st)
		if err != nil {
			return "HARNESS " + err.Error()
		}
		return msg
	}
}

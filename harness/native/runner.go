package native

import (
	"bytes"
	"context"
	"encoding/json"
	"fmt"
	"os"
	"os/exec"
	"path/filepath"
	"strings"
	"sync"
	"time"
)

// Unit is one program to build natively.
type Unit struct {
	Key        string            // content hash (cache key)
	Files      map[string]string // files of package pN (package clause "package main" is rewritten)
	Vals       []uint64          // valuations to run
	GoMaxProcs []int             // optional: one run per value and valuation (concurrent profiles)
	Isolated   bool              // needs its own binary (package init functions would otherwise run in every program's process)
}

// Run is what one execution observed.
type Run struct {
	Prog     string         `json:"prog"`
	Val      uint64         `json:"val"`
	Flows    [][3]int       `json:"flows"`
	Aliases  [][2]int       `json:"aliases"` // pairs of probe ids whose values referred to overlapping memory in this run
	Hops     [][3]int       `json:"hops"` // (source line, sink line, minimal number of reference hops from the sink argument)
	Approved []int          `json:"approved"`
	Entered  []int          `json:"entered"`
	Calls    []string       `json:"calls"`
	Panic    string         `json:"panic"`
	Extra    map[string]any `json:"extra"`
	Crashed  bool           `json:"crashed"` // no report line: the process died (fatal error, panic in init, timeout)
	Stderr   string         `json:"stderr,omitempty"`
	TimedOut bool           `json:"timed_out,omitempty"`
}

// Result is everything observed for a unit.
type Result struct {
	Key      string
	Runs     []Run
	BuildErr string
}

// Options of a batch.
type Options struct {
	Race      bool
	Timeout   time.Duration // per run
	Workers   int
	KeepDir   bool
	BuildP    int  // go build -p
	InProcess bool // run all valuations of the merged programs in one process (only for programs without goroutines)
	Env       []string
}

func goEnv() []string {
	env := os.Environ()
	env = append(env, "GOFLAGS=-mod=mod", "GOPROXY=off", "GOSUMDB=off", "GOTOOLCHAIN=local", "GO111MODULE=on")
	return env
}

// RunBatch renders all units into one scratch module, builds them with a single go build and executes every
// (unit, valuation). dir is a scratch directory (created, and removed unless KeepDir).
func RunBatch(dir string, units []Unit, opt Options) (map[string]*Result, error) {
	if opt.Timeout == 0 {
		opt.Timeout = 10 * time.Second
	}
	if opt.Workers == 0 {
		opt.Workers = 4
	}
	res := map[string]*Result{}
	if len(units) == 0 {
		return res, nil
	}
	if err := os.MkdirAll(dir, 0o755); err != nil {
		return nil, err
	}
	if !opt.KeepDir && os.Getenv("VERIF_DEBUG") == "" {
		defer os.RemoveAll(dir)
	}
	write := func(rel, content string) error {
		p := filepath.Join(dir, rel)
		if err := os.MkdirAll(filepath.Dir(p), 0o755); err != nil {
			return err
		}
		return os.WriteFile(p, []byte(content), 0o644)
	}
	if err := write("go.mod", "module vnative\n\ngo 1.22\n"); err != nil {
		return nil, err
	}
	if err := write("rt/rt.go", RtSource); err != nil {
		return nil, err
	}
	names := make([]string, len(units))
	var shared []string
	for i, u := range units {
		pkg := fmt.Sprintf("p%d", i)
		names[i] = pkg
		res[u.Key] = &Result{Key: u.Key}
		if u.Isolated {
			for fn, c := range u.Files {
				c = strings.Replace(c, "package main", "package "+pkg, 1)
				if err := write(filepath.Join(pkg, fn), c); err != nil {
					return nil, err
				}
			}
			if err := write(filepath.Join("cmd", pkg, "main.go"), MainSource(pkg)); err != nil {
				return nil, err
			}
			continue
		}
		// merged: all non-isolated programs are compiled as one package, their package-level names prefixed
		renamed, err := renameUnit(u.Files, fmt.Sprintf("P%d_", i))
		if err != nil {
			res[u.Key].BuildErr = err.Error()
			continue
		}
		for fn, c := range renamed {
			c = strings.Replace(c, "package main", "package all", 1)
			if err := write(filepath.Join("all", fmt.Sprintf("%s_%s", pkg, fn)), c); err != nil {
				return nil, err
			}
		}
		shared = append(shared, pkg)
	}
	if len(shared) > 0 {
		if err := write(filepath.Join("cmd", "shared", "main.go"), MergedDispatcherSource(shared)); err != nil {
			return nil, err
		}
	}
	if opt.BuildP == 0 {
		opt.BuildP = 2
	}
	args := []string{"build", "-p", fmt.Sprint(opt.BuildP), "-gcflags=vnative/...=-N -l", "-o", filepath.Join(dir, "bin") + "/"}
	if opt.Race {
		args = append(args, "-race")
	}
	args = append(args, "./cmd/...")
	build := func(a []string) (string, error) {
		cmd := exec.Command("go", a...)
		cmd.Dir = dir
		// the Go tools waste most of their time in scheduling overhead when each of them runs with 16 Ps in this VM
		cmd.Env = append(goEnv(), "GOMAXPROCS=2")
		out, err := cmd.CombinedOutput()
		return string(out), err
	}
	_ = os.MkdirAll(filepath.Join(dir, "bin"), 0o755)
	tb := time.Now()
	defer func() {
		if os.Getenv("VERIF_DEBUG") != "" {
			fmt.Fprintf(os.Stderr, "RunBatch %s: %d units total %.1fs\n", dir, len(units), time.Since(tb).Seconds())
		}
	}()
	bout, err := build(args)
	if os.Getenv("VERIF_DEBUG") != "" {
		fmt.Fprintf(os.Stderr, "RunBatch %s: build %.1fs\n", dir, time.Since(tb).Seconds())
	}
	if err != nil {
		// some unit does not compile: vet the packages one by one to find which (a generator bug; reported by the caller)
		return nil, fmt.Errorf("native build failed: %s", bout)
	}
	type job struct {
		ui  int
		val uint64
		gmp int
	}
	var jobs []job
	for i, u := range units {
		if res[u.Key].BuildErr != "" {
			continue
		}
		gm := u.GoMaxProcs
		if len(gm) == 0 {
			gm = []int{0}
		}
		for _, v := range u.Vals {
			for _, g := range gm {
				jobs = append(jobs, job{i, v, g})
			}
		}
	}
	out := make([]Run, len(jobs))
	done := make([]bool, len(jobs))
	// merged programs without goroutines: all their runs in ONE process (process creation is the dominating cost in
	// this sandbox); runs the process did not get to (it died) fall back to one process per run below.
	if opt.InProcess && len(shared) > 0 {
		var in strings.Builder
		idx := map[string]int{}
		for ji, j := range jobs {
			if !units[j.ui].Isolated {
				fmt.Fprintf(&in, "%s %d\n", names[j.ui], j.val)
				idx[fmt.Sprintf("%s %d", names[j.ui], j.val)] = ji
			}
		}
		ctx, cancel := context.WithTimeout(context.Background(), opt.Timeout*6)
		cmd := exec.CommandContext(ctx, filepath.Join(dir, "bin", "shared"))
		cmd.Dir = dir
		cmd.Env = append(append([]string{}, os.Environ()...), "GOMAXPROCS=2")
		cmd.Stdin = strings.NewReader(in.String())
		var so bytes.Buffer
		cmd.Stdout = &so
		_ = cmd.Run()
		cancel()
		cur := -1
		for _, line := range strings.Split(so.String(), "\n") {
			if strings.HasPrefix(line, "VERIF-BEGIN ") {
				if ji, ok := idx[line[len("VERIF-BEGIN "):]]; ok {
					cur = ji
				} else {
					cur = -1
				}
			} else if strings.HasPrefix(line, "VERIF-RUN ") && cur >= 0 {
				var rr Run
				if json.Unmarshal([]byte(line[len("VERIF-RUN "):]), &rr) == nil {
					out[cur] = rr
					done[cur] = true
				}
				cur = -1
			}
		}
	}
	var wg sync.WaitGroup
	ch := make(chan int)
	for w := 0; w < opt.Workers; w++ {
		wg.Add(1)
		go func() {
			defer wg.Done()
			for ji := range ch {
				j := jobs[ji]
				bin := "shared"
				if units[j.ui].Isolated {
					bin = names[j.ui]
				}
				out[ji] = runOne(filepath.Join(dir, "bin", bin), names[j.ui], j.val, j.gmp, opt)
			}
		}()
	}
	for ji := range jobs {
		if !done[ji] {
			ch <- ji
		}
	}
	close(ch)
	wg.Wait()
	for ji, j := range jobs {
		r := res[units[j.ui].Key]
		r.Runs = append(r.Runs, out[ji])
	}
	return res, nil
}

func runOne(bin string, prog string, val uint64, gmp int, opt Options) Run {
	ctx, cancel := context.WithTimeout(context.Background(), opt.Timeout)
	defer cancel()
	cmd := exec.CommandContext(ctx, bin, fmt.Sprint(val), prog)
	cmd.Dir = filepath.Dir(bin)
	env := append([]string{}, os.Environ()...)
	if gmp > 0 {
		env = append(env, fmt.Sprintf("GOMAXPROCS=%d", gmp))
	} else {
		env = append(env, "GOMAXPROCS=2")
	}
	env = append(env, opt.Env...)
	cmd.Env = env
	var so, se bytes.Buffer
	cmd.Stdout = &so
	cmd.Stderr = &se
	t0 := time.Now()
	err := cmd.Run()
	if d := time.Since(t0); d > 3*time.Second && os.Getenv("VERIF_DEBUG") != "" {
		fmt.Fprintf(os.Stderr, "SLOW native run %s val=%d %v\n", bin, val, d)
	}
	r := Run{Val: val, Crashed: true}
	for _, line := range strings.Split(so.String(), "\n") {
		if strings.HasPrefix(line, "VERIF-RUN ") {
			var rr Run
			if json.Unmarshal([]byte(line[len("VERIF-RUN "):]), &rr) == nil {
				r = rr
				r.Crashed = false
			}
		}
	}
	if ctx.Err() != nil {
		r.TimedOut = true
	}
	if err != nil || r.Crashed {
		s := se.String()
		if len(s) > 60000 {
			s = s[:60000]
		}
		r.Stderr = s
	}
	return r
}

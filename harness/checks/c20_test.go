package checks

import (
	"fmt"
	"os"
	"path/filepath"
	"runtime"
	"sort"
	"strings"
	"testing"
	"time"

	"github.com/awslabs/ar-go-tools/analysis/config"
	"github.com/awslabs/ar-go-tools/analysis/taint"
	"github.com/awslabs/ar-go-tools/internal/funcutil"
	"github.com/awslabs/ar-go-tools/verifharness/core"
	"github.com/awslabs/ar-go-tools/verifharness/gogen"
	"pgregory.net/rapid"
)

// C20: the analyzer's own parallelism is race-free and order-preserving. The test binary of this check is built with
// -race (GORACE=halt_on_error=1): a data race ends the process and /verif/check turns the race report into the
// violation, with the case that was running (written to current-C20-<shard>/ before every run) as the replay.

// c20LateExits counts analyses after which a goroutine was still being counted when Analyze returned and was gone
// within the settle time.
var c20LateExits int

func goroutinesSettle(base int) int {
	deadline := time.Now().Add(2 * time.Second)
	n := runtime.NumGoroutine()
	for n > base && time.Now().Before(deadline) {
		time.Sleep(5 * time.Millisecond)
		n = runtime.NumGoroutine()
	}
	return n
}

func c20MapParallel(t *rapid.T, rec *core.Recorder) {
	n := gogen.Uniform(t, 300, "len")
	if gogen.Uniform(t, 10, "big") == 0 {
		n = 300 + gogen.Uniform(t, 1700, "len2")
	}
	workers := gogen.Uniform(t, 44, "workers") - 3
	if gogen.Uniform(t, 6, "many-workers") == 0 {
		// hosts with hundreds of cores pass NumCPU-1 here; the function takes any int
		workers = []int{100, 255, 256, 257, 300, 512, 1024, 1500}[gogen.Uniform(t, 8, "how-many")]
	}
	kind := gogen.Uniform(t, 3, "kind")
	in := make([]int, n)
	for i := range in {
		in[i] = rapid.IntRange(-1000, 1000).Draw(t, "x")
	}
	f := func(x int) int { return 2*x + 1 }
	switch kind {
	case 1:
		f = func(x int) int {
			runtime.Gosched()
			return x * x
		}
	case 2:
		f = func(x int) int {
			if x%7 == 0 {
				time.Sleep(50 * time.Microsecond)
			}
			return -x
		}
	}
	base := runtime.NumGoroutine()
	done := make(chan []int, 1)
	go func() { done <- funcutil.MapParallel(in, f, workers) }()
	var got []int
	select {
	case got = <-done:
	case <-time.After(60 * time.Second):
		buf := make([]byte, 1<<16)
		buf = buf[:runtime.Stack(buf, true)]
		msg := env.Report(core.Violation{ID: "C20", Signature: "mapparallel-hang", What: fmt.Sprintf("MapParallel(len=%d, workers=%d) did not return within 60 s", n, workers),
			Files: map[string]string{"case.txt": fmt.Sprintf("%d %d %d\n", n, workers, kind), "goroutines.txt": string(buf)}, Kind: "c20-map"})
		t.Fatalf("%s", msg)
	}
	want := funcutil.Map(in, f)
	rec.Case(core.Hash(fmt.Sprint(in), fmt.Sprint(workers, kind)), n > workers && workers > 1, []string{fmt.Sprintf("kind:%d", kind)}, func() any {
		return map[string]any{"len": n, "workers": workers, "function": []string{"pure", "yielding", "sleeping"}[kind]}
	})
	bad := len(got) != len(want)
	for i := 0; !bad && i < len(want); i++ {
		if got[i] != want[i] {
			bad = true
		}
	}
	if bad {
		msg := env.Report(core.Violation{ID: "C20", Signature: "mapparallel-differs", What: fmt.Sprintf("MapParallel(len=%d, workers=%d) differs from the sequential map", n, workers),
			Files: map[string]string{"case.txt": fmt.Sprintf("%d %d %d\n", n, workers, kind), "input.txt": fmt.Sprint(in)}, Kind: "c20-map"})
		t.Fatalf("%s", msg)
	}
	if left := goroutinesSettle(base); left > base {
		msg := env.Report(core.Violation{ID: "C20", Signature: "mapparallel-leak", What: fmt.Sprintf("MapParallel(len=%d, workers=%d) left %d goroutine(s) running", n, workers, left-base),
			Files: map[string]string{"case.txt": fmt.Sprintf("%d %d %d\n", n, workers, kind)}, Kind: "c20-map"})
		t.Fatalf("%s", msg)
	}
}

type c20Opts struct {
	OnDemand, Summaries, Coverage, Paths, NoCallee, Escape bool
	LogLevel, Procs                                        int
}

func (o c20Opts) String() string {
	return fmt.Sprintf("ondemand=%v summaries=%v coverage=%v paths=%v nocallee=%v escape=%v log=%d procs=%d", o.OnDemand, o.Summaries, o.Coverage, o.Paths, o.NoCallee, o.Escape, o.LogLevel, o.Procs)
}

func (o c20Opts) yaml(reports string) string {
	m := map[string]any{"log-level": o.LogLevel, "reports-dir": reports}
	if o.OnDemand {
		m["summarize-on-demand"] = true
	}
	if o.Summaries {
		m["report-summaries"] = true
	}
	if o.Coverage {
		m["report-coverage"] = true
	}
	if o.Paths {
		m["report-paths"] = true
	}
	if o.NoCallee {
		m["report-no-callee-sites"] = true
	}
	if o.Escape {
		m["use-escape-analysis"] = true
	}
	return mergeOptions(core.TaintOpts{}.YAML(), m)
}

// c20Analyse runs one analysis and checks goroutine count and report-file completeness. Data races end the process.
func c20Analyse(files map[string]string, o c20Opts, reports string) (string, int) {
	_ = os.RemoveAll(reports)
	cfg, err := config.Load(filepath.Join(filepath.Dir(reports), "config.yaml"), []byte(o.yaml(reports)))
	if err != nil {
		return "HARNESS config: " + err.Error(), 0
	}
	l, err := core.LoadSource(files)
	if err != nil {
		return "HARNESS load: " + err.Error(), 0
	}
	old := runtime.GOMAXPROCS(o.Procs)
	defer runtime.GOMAXPROCS(old)
	base := runtime.NumGoroutine()
	var res taint.AnalysisResult
	var pan string
	func() {
		defer func() {
			if r := recover(); r != nil {
				pan = fmt.Sprint(r)
			}
		}()
		res, _ = taint.Analyze(cfg, l.Prog, nil)
	}()
	if pan != "" {
		return "", 0 // crashes belong to C07
	}
	after := runtime.NumGoroutine()
	nsum := 0
	if res.State != nil && res.State.FlowGraph != nil {
		nsum = len(res.State.FlowGraph.Summaries)
	}
	// report files must be complete when Analyze returns: read them now and again after everything settled
	read := func() map[string]string {
		m := map[string]string{}
		ms, _ := filepath.Glob(filepath.Join(reports, "*"))
		for _, f := range ms {
			b, _ := os.ReadFile(f)
			m[filepath.Base(f)] = string(b)
		}
		return m
	}
	now := read()
	left := goroutinesSettle(base)
	time.Sleep(20 * time.Millisecond)
	later := read()
	if after > base && left > base {
		return fmt.Sprintf("%d goroutine(s) started by the analysis are still running 2 s after it returned [%s]", left-base, o), nsum
	}
	if after > base {
		// A worker that has delivered its result may still be counted while it returns (wg.Done() runs before the
		// goroutine is gone): a higher count immediately after Analyze is not a leak. It is a violation only when the
		// goroutine is still there after the settle time (above) or when it changes a report file after the return
		// (below); the observation is counted.
		c20LateExits++
	}
	var names []string
	for n := range later {
		names = append(names, n)
	}
	sort.Strings(names)
	for _, n := range names {
		if now[n] != later[n] {
			return fmt.Sprintf("report file %s was not complete when the analysis returned (%d bytes, %d bytes later) [%s]", n, len(now[n]), len(later[n]), o), nsum
		}
	}
	if o.Summaries && !o.OnDemand && res.State != nil {
		var sf string
		for _, n := range names {
			if strings.HasPrefix(n, "summaries-") {
				sf = later[n]
			}
		}
		// summaries can be added after the graph was built (on-demand construction during the traversal), so only the
		// section of main, which is summarised in the first pass of every program, is demanded
		if !strings.Contains(sf, "command-line-arguments.main:\n") {
			return fmt.Sprintf("the summaries report (%d bytes) lacks the section of the main function [%s]", len(sf), o), nsum
		}
	}
	return "", nsum
}

func c20WriteCurrent(files map[string]string, o c20Opts) {
	dir := filepath.Join(env.Out, fmt.Sprintf("current-C20-%d", env.Shard))
	_ = os.RemoveAll(dir)
	f := map[string]string{"opts.txt": fmt.Sprintf("%v %v %v %v %v %v %d %d\n", o.OnDemand, o.Summaries, o.Coverage, o.Paths, o.NoCallee, o.Escape, o.LogLevel, o.Procs),
		"violation.json": `{"property":"C20","kind":"c20","signature":"data-race","what":"the race detector reported a data race while this case was analysed"}`}
	for k, v := range files {
		f[k] = v
	}
	_ = core.WriteFiles(dir, f)
}

func TestC20(t *testing.T) {
	rec := core.NewRecorder("C20", env, "cases = (a) funcutil.MapParallel on slices of length 0..2000 with -3..40 (one case in six: 100..1500) workers and pure / yielding / "+
		"sleeping element functions, compared with the sequential Map, goroutine count back to its base; (b) taint analyses of generated flow "+
		"programs under drawn combinations of report-summaries/coverage/paths/no-callee-sites, on-demand, escape analysis, log level and "+
		"GOMAXPROCS in a test binary built with -race: no race report, no goroutine outliving Analyze, report files complete at return; "+
		"non-trivial = (a) len > workers > 1, (b) a report option is on and >= 30 summaries; distinct = hash of the case")
	rec.Assumptions = []string{"the race detector only sees interleavings that happen; repetition and varying GOMAXPROCS sample them"}
	defer rec.Flush()
	replayKnown(t, "C20")
	rapidSetup(env.Pick(3000, 30000), 20)
	rapid.Check(t, func(rt *rapid.T) { c20MapParallel(rt, rec) })
	if t.Failed() {
		return
	}
	off := excluded()
	reports := filepath.Join(env.Out, fmt.Sprintf("reports-c20-%d", env.Shard), "r")
	_ = os.MkdirAll(filepath.Dir(reports), 0o755)
	rapidSetup(env.Pick(120, 1200), 21)
	rapid.Check(t, func(rt *rapid.T) {
		prog := gogen.Generate(rt, gogen.FlowProfile(nil))
		files := map[string]string{"main.go": prog.Main, "prelude.go": gogen.AnalysedPrelude}
		o := c20Opts{OnDemand: gogen.Uniform(rt, 3, "od") == 0, Summaries: gogen.Uniform(rt, 2, "rs") == 0, Coverage: gogen.Uniform(rt, 2, "rc") == 0,
			Paths: gogen.Uniform(rt, 2, "rp") == 0, NoCallee: gogen.Uniform(rt, 2, "rn") == 0, Escape: gogen.Uniform(rt, 4, "esc") == 0,
			LogLevel: 1 + gogen.Uniform(rt, 2, "ll"), Procs: []int{2, 4, 16}[gogen.Uniform(rt, 3, "procs")]}
		if o.Summaries && off["report-summaries"] {
			rec.Count("excluded_by_known_finding", 1)
			o.Summaries = false
		}
		c20WriteCurrent(files, o)
		for rep := 0; rep < 2; rep++ {
			before := c20LateExits
			msg, nsum := c20Analyse(files, o, reports)
			if c20LateExits > before {
				rec.Count("goroutine_still_counted_at_return_but_gone_after_settle", 1)
			}
			if rep == 0 {
				rec.Case(core.Hash(prog.Main, o.String()), (o.Summaries || o.Coverage || o.Paths || o.NoCallee) && nsum >= 30,
					[]string{fmt.Sprintf("summaries:%v", o.Summaries), fmt.Sprintf("ondemand:%v", o.OnDemand), fmt.Sprintf("escape:%v", o.Escape)},
					func() any {
						return map[string]any{"options": o.String(), "summaries": nsum, "program_lines": strings.Count(prog.Main, "\n")}
					})
			}
			if strings.HasPrefix(msg, "HARNESS") {
				rt.Fatalf("%s", msg)
			}
			if msg != "" {
				f := map[string]string{"opts.txt": fmt.Sprintf("%v %v %v %v %v %v %d %d\n", o.OnDemand, o.Summaries, o.Coverage, o.Paths, o.NoCallee, o.Escape, o.LogLevel, o.Procs)}
				for k, v := range files {
					f[k] = v
				}
				sig := "goroutine-outlives"
				if strings.Contains(msg, "report file") || strings.Contains(msg, "summaries report") {
					sig = "report-incomplete"
				}
				m := env.Report(core.Violation{ID: "C20", Signature: sig, What: msg, Files: f, Kind: "c20"})
				rt.Fatalf("%s", m)
			}
		}
	})
}

func init() {
	replayers["c20"] = func(dir string) string {
		files := map[string]string{}
		for _, n := range []string{"main.go", "prelude.go"} {
			b, err := os.ReadFile(filepath.Join(dir, n))
			if err != nil {
				return "HARNESS cannot read " + n
			}
			files[n] = string(b)
		}
		var o c20Opts
		b, _ := os.ReadFile(filepath.Join(dir, "opts.txt"))
		_, _ = fmt.Sscan(string(b), &o.OnDemand, &o.Summaries, &o.Coverage, &o.Paths, &o.NoCallee, &o.Escape, &o.LogLevel, &o.Procs)
		if o.Procs == 0 {
			o.Procs = 4
		}
		reports := filepath.Join(env.Out, "reports-c20-replay", "r")
		_ = os.MkdirAll(filepath.Dir(reports), 0o755)
		for rep := 0; rep < 8; rep++ {
			if msg, _ := c20Analyse(files, o, reports); msg != "" {
				return msg
			}
		}
		return ""
	}
	replayers["c20-map"] = func(dir string) string { return "" }
}

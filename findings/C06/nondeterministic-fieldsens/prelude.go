package main

var opaque [16]bool

func cond(i int) bool { return opaque[i&15] }

func bound(i int) int {
	n := 0
	if opaque[i&15] {
		n++
	}
	if opaque[(i+1)&15] {
		n++
	}
	return n
}

func sel(i int) int { return bound(i) }

func enter(id int) {}

func source1(line int) string { return "src" }

func source2(line int) *S { return &S{A: "src", P: new(string), L: []string{"src", ""}, M: map[string]string{"k": "src"}} }

func source3(line int) []string { return []string{"src", "src"} }

func source4(line int) any { return "src" }

func sink1(line int, x any) {}

func sink2(line int, s string) {}

func sink3(line int, x any, y any) {}

func sink4(line int, xs ...any) {}

func sanitize1(x string) string { return x }

func validate1(bit int, x string) bool { return opaque[bit&15] }

type verr struct{}

func (verr) Error() string { return "invalid" }

func validateE(bit int, x string) error {
	if opaque[bit&15] {
		return nil
	}
	return verr{}
}

func gstart() {}

func gdone() {}

func waitall() {}

func yield() {}

func probePS(id int, p *S) {}

func probeP(id int, p *string) {}

func probeL(id int, l []string) {}

func probeM(id int, m map[string]string) {}

// probe runs the taint analysis in-process on the .go files of a directory and prints the reported pairs.
// usage: probe [-fs] [-od] [-esc] [-san re] [-val re] [-log n] dir
package main

import (
	"flag"
	"fmt"
	"os"
	"path/filepath"
	"sort"
	"strings"

	"github.com/awslabs/ar-go-tools/verifharness/core"
)

func main() {
	fs := flag.Bool("fs", false, "field-sensitive")
	od := flag.Bool("od", false, "summarize-on-demand")
	esc := flag.Bool("esc", false, "use-escape-analysis")
	san := flag.String("san", "", "sanitizer regex")
	val := flag.String("val", "", "validator regex")
	ll := flag.Int("log", 1, "log level")
	disk := flag.Bool("disk", false, "load through analysis.LoadProgram")
	serve := flag.Bool("serve", false, "serve analysis requests (JSON lines on stdin/stdout)")
	bt := flag.Bool("bt", false, "run the backtrace analysis (sink* = backtrace points) and print the lines on the traces")
	step := flag.String("step", "", "run one step of the C07 analysis list (e.g. backtrace-eager) instead of taint")
	flag.Parse()
	if *serve {
		core.ServeWorker()
		return
	}
	dir := flag.Arg(0)
	files := map[string]string{}
	ms, _ := filepath.Glob(filepath.Join(dir, "*.go"))
	var names []string
	for _, m := range ms {
		b, _ := os.ReadFile(m)
		files[filepath.Base(m)] = string(b)
		names = append(names, filepath.Base(m))
	}
	if *bt {
		l, err := core.LoadSource(files)
		if err != nil {
			fmt.Println("load error:", err)
			os.Exit(2)
		}
		out := core.RunBacktrace(core.MustConfig(core.BacktraceYAML(*od)), l)
		for _, e := range out.Entries {
			var ls []int
			for k := range e.Lines {
				ls = append(ls, k)
			}
			sort.Ints(ls)
			fmt.Printf("entry: call line %d arg %d: %d traces, lines %v\n", e.SinkLine, e.ArgIndex, e.NTraces, ls)
		}
		fmt.Println("pairs: err", out.Err, "invalid", out.Invalid, "panic", out.Panic)
		return
	}
	if *step != "" {
		for _, r := range core.RunAllAnalyses(files, *step) {
			fmt.Printf("pairs: step %s done in %.2fs err=%q panic=%q\n", r.Step, r.Seconds, r.Err, r.Panic)
		}
		return
	}
	opts := core.TaintOpts{FieldSensitive: *fs, OnDemand: *od, UseEscape: *esc, LogLevel: *ll}
	if *san != "" {
		opts.Sanitizers = []string{*san}
	}
	if *val != "" {
		opts.Validators = strings.Split(*val, ",")
	}
	var l *core.Loaded
	var err error
	if *disk {
		l, err = core.LoadDisk(dir, names, true)
	} else {
		l, err = core.LoadSource(files)
	}
	if err != nil {
		fmt.Println("load error:", err)
		os.Exit(2)
	}
	out := core.RunTaint(core.MustConfig(opts.YAML()), l)
	if *ll > 1 {
		fmt.Println(out.Log)
	}
	fmt.Println("pairs:", out.PairList())
	fmt.Println("escapes:", out.Escapes)
	fmt.Println("err:", out.Err)
	if out.Panic != "" {
		fmt.Println("PANIC:", out.Panic)
	}
}

package checks

import (
	"fmt"
	"sort"
	"time"

	"github.com/awslabs/ar-go-tools/analysis/config"
	df "github.com/awslabs/ar-go-tools/analysis/dataflow"
	"github.com/awslabs/ar-go-tools/verifharness/core"
	"golang.org/x/tools/go/ssa"
)

// C08, second sentence: "the abstract state the summary is built from is closed under control-flow propagation:
// origins attached to a value at a program point are attached at every later point". The final FlowInformation of
// every function is obtained through the public post-block callback of dataflow.IntraProceduralAnalysis (the callback
// receives the analysis state; its FlowInformation object is the one the summary edges are built from). Oracle: for
// every control-flow edge i -> j between non-ignored instructions (consecutive instructions of a block; the last
// instruction of a block and the first instruction of each successor block) and every value v, every (access path,
// mark) attached to v at i is attached to v at j.

type c08bStats struct {
	functions, edges, pairs, marks int
	backEdges                      int
	deferSlotsSkipped              int
}

func isDebugRef(i ssa.Instruction) bool {
	_, ok := i.(*ssa.DebugRef)
	return ok
}

func firstReal(b *ssa.BasicBlock) ssa.Instruction {
	for _, i := range b.Instrs {
		if !isDebugRef(i) {
			return i
		}
	}
	return nil
}

func lastReal(b *ssa.BasicBlock) ssa.Instruction {
	for k := len(b.Instrs) - 1; k >= 0; k-- {
		if !isDebugRef(b.Instrs[k]) {
			return b.Instrs[k]
		}
	}
	return nil
}

// c08bClosed checks the closure of one function's final flow information along the CFG.
func c08bClosed(fn *ssa.Function, fi *df.FlowInformation, st *c08bStats) string {
	type edge struct{ from, to ssa.Instruction }
	var edges []edge
	for _, b := range fn.Blocks {
		var prev ssa.Instruction
		for _, i := range b.Instrs {
			if isDebugRef(i) {
				continue
			}
			if prev != nil {
				edges = append(edges, edge{prev, i})
			}
			prev = i
		}
		if prev == nil {
			continue
		}
		for _, s := range b.Succs {
			if f := firstReal(s); f != nil {
				edges = append(edges, edge{prev, f})
				if s.Index <= b.Index {
					st.backEdges++
				}
			}
		}
	}
	n := fi.NumValues
	for _, e := range edges {
		if _, isDefer := e.from.(*ssa.Defer); isDefer {
			// the slot of a Defer instruction is where the defer-stack simulation of RunDefers stores the marks of the
			// deferred call ("as if those calls happened at the RunDefers location"): it is not the state of the
			// program point of the defer statement, see DESIGN.md section 6
			st.deferSlotsSkipped++
			continue
		}
		fromID, ok1 := fi.InstrID[e.from]
		toID, ok2 := fi.InstrID[e.to]
		if !ok1 || !ok2 {
			continue
		}
		st.edges++
		for v := df.IndexT(0); v < n; v++ {
			a := fi.MarkedValues[fromID*n+v]
			if a == nil {
				continue
			}
			b := fi.MarkedValues[toID*n+v]
			for path, marks := range a.PathMappings() {
				for m := range marks {
					st.marks++
					ok := false
					if b != nil {
						if bm := b.PathMappings(); bm != nil {
							ok = bm[path][m]
							if !ok {
								// a path-insensitive target keeps everything under ""
								ok = bm[""][m] && len(bm) == 1
							}
						}
					}
					if !ok {
						val := a.GetValue()
						vn := "?"
						if val != nil {
							vn = val.Name()
						}
						return fmt.Sprintf("in %v: at instruction %q value %s carries origin %s (access path %q), but at the control-flow successor %q "+
							"the origin is not attached to that value any more: the final abstract state is not closed under control-flow propagation",
							fn, e.from.String(), vn, m.String(), path, e.to.String())
					}
				}
			}
			st.pairs++
		}
	}
	return ""
}

// c08bProgram summarises every function with a body of the loaded program (fresh analyzer state) with a post-block
// callback and checks the closure. Functions of other packages than main are skipped when onlyMain is set.
func c08bProgram(l *core.Loaded, fieldSensitive bool, onlyMain bool, budget time.Duration) (msg string, st c08bStats, inconclusive bool) {
	cfg := core.MustConfig(core.TaintOpts{FieldSensitive: fieldSensitive}.YAML())
	type res struct {
		msg string
		st  c08bStats
		inc bool
	}
	ch := make(chan res, 1)
	go func() {
		var r res
		defer func() {
			if p := recover(); p != nil {
				r.inc = true // crash-freedom is C07's subject
			}
			ch <- r
		}()
		state, err := df.NewInitializedAnalyzerState(l.Prog, nil, config.NewLogGroup(cfg), cfg)
		if err != nil {
			r.inc = true
			return
		}
		var fns []*ssa.Function
		for f := range state.ReachableFunctions() {
			if len(f.Blocks) == 0 {
				continue
			}
			if onlyMain && (f.Pkg == nil || f.Pkg.Pkg.Name() != "main") && f.Parent() == nil {
				continue
			}
			fns = append(fns, f)
		}
		sort.Slice(fns, func(i, j int) bool { return fns[i].String() < fns[j].String() })
		for _, f := range fns {
			var fi *df.FlowInformation
			cb := func(s *df.IntraAnalysisState) { fi = s.FlowInfo() }
			_, err := df.IntraProceduralAnalysis(state, f, true, df.GetUniqueFunctionID(),
				func(*df.AnalyzerState, ssa.Node) bool { return false }, cb)
			if err != nil || fi == nil {
				continue
			}
			r.st.functions++
			if m := c08bClosed(f, fi, &r.st); m != "" {
				r.msg = m
				return
			}
		}
	}()
	select {
	case r := <-ch:
		return r.msg, r.st, r.inc
	case <-time.After(budget):
		return "", c08bStats{}, true
	}
}

#!/usr/bin/env python3
"""tools/mkseededmeta.py <confirm.log> <eval.log>...: writes seeded/<id>/meta.json from the agent's description
(agent-meta.json), the confirmation log of tools/confirm_seeded.sh and the logs of tools/evalmut.sh."""
import json, os, re, sys
root = os.path.dirname(os.path.dirname(os.path.abspath(__file__)))
confirm = open(sys.argv[1]).read().splitlines()
evals = []
for f in sys.argv[2:]:
    evals += open(f).read().splitlines()
head = os.popen("git -C /repo log --format=%h -1").read().strip()
for sid in sorted(os.listdir(os.path.join(root, "seeded"))):
    d = os.path.join(root, "seeded", sid)
    if not os.path.isdir(d) or not os.path.exists(os.path.join(d, "agent-meta.json")):
        continue
    am = json.load(open(os.path.join(d, "agent-meta.json")))
    mine = [l for l in confirm if l.startswith(sid + ":")]
    runs = []
    for l in evals:
        m = re.match(r"(\S+) (C\d\d) seed=(\d+) -> (\d+) violation line\(s\), withmut: exit=(\d+)", l)
        if m and m.group(1) == sid:
            runs.append({"check": "./check %s quick" % m.group(2), "seed": int(m.group(3)),
                         "outcome": "VIOLATION reported (exit 1)" if m.group(5) == "1" else ("no violation (exit 0)" if m.group(5) == "0" else "exit " + m.group(5))})
    meta = {
        "property": str(am.get("property", ""))[:3],
        "what": am.get("what", ""),
        "needs_to_manifest": am.get("needs", ""),
        "origin": "written by a sub-agent that saw only the property text and a scratch worktree of /repo; nothing from /verif",
        "confirmed_by_me": {
            "how": "tools/confirm_seeded.sh seeded/%s in a scratch worktree of /repo: demo.sh without the patch, git apply patch.diff, go build ./..., demo.sh with the patch, go test of the packages in existing.txt with the patch" % sid,
            "log": mine,
        },
        "checks_run_against_it": {
            "how": "tools/evalmut.sh %s <property> <seed>: the registered quick command with VERIF_REPO pointing at a scratch worktree of /repo (HEAD %s) with patch.diff applied; /repo itself untouched" % (sid, head),
            "runs": runs,
            "note": "runs are listed in chronological order; generator shapes and the replay tier of saved inputs were extended between runs, so an earlier 'no violation' followed by a later 'VIOLATION reported' for the same check shows what the extension bought; the last run per check was made with (nearly) the committed harness",
        },
    }
    json.dump(meta, open(os.path.join(d, "meta.json"), "w"), indent=1)
    print(sid, len(mine), "confirm lines,", len(runs), "runs")

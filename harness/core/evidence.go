package core

import (
	"crypto/sha256"
	"encoding/hex"
	"encoding/json"
	"fmt"
	"os"
	"path/filepath"
	"sort"
	"strconv"
	"strings"
	"sync"
	"time"
)

// Env describes how the current process was started by /verif/check.
type Env struct {
	Tier   string // quick | thorough
	Seed   int    // VERIF_SEED
	Shard  int    // VERIF_SHARD (0-based)
	Shards int    // VERIF_SHARDS
	Out    string // VERIF_OUT: scratch directory of this run (shard files, violation dirs)
	Root   string // /verif
	Repo   string // /repo (or VERIF_REPO)
}

func envInt(k string, d int) int {
	if v, err := strconv.Atoi(os.Getenv(k)); err == nil {
		return v
	}
	return d
}

// GetEnv reads the VERIF_* environment.
func GetEnv() Env {
	e := Env{
		Tier:   os.Getenv("VERIF_TIER"),
		Seed:   envInt("VERIF_SEED", 1),
		Shard:  envInt("VERIF_SHARD", 0),
		Shards: envInt("VERIF_SHARDS", 1),
		Out:    os.Getenv("VERIF_OUT"),
		Root:   os.Getenv("VERIF_ROOT"),
		Repo:   os.Getenv("VERIF_REPO"),
	}
	if e.Tier == "" {
		e.Tier = "quick"
	}
	if e.Root == "" {
		e.Root = "/verif"
	}
	if e.Repo == "" {
		e.Repo = "/repo"
	}
	if e.Out == "" {
		e.Out = filepath.Join(os.TempDir(), fmt.Sprintf("verif-scratch-%d", os.Getpid()))
	}
	_ = os.MkdirAll(e.Out, 0o755)
	return e
}

// Thorough reports whether the thorough tier was requested.
func (e Env) Thorough() bool { return e.Tier == "thorough" }

// Pick returns q in the quick tier and t in the thorough tier, divided among the shards (at least 1).
func (e Env) Pick(q, t int) int {
	n := q
	if e.Thorough() {
		n = t
	}
	// development aid only (never set by a registered command): percentage of the case count
	if ds, err := strconv.Atoi(os.Getenv("VERIF_DEVSCALE")); err == nil && ds > 0 {
		n = n * ds / 100
	}
	n = (n + e.Shards - 1) / e.Shards
	if n < 1 {
		n = 1
	}
	return n
}

// Hash returns a short content hash.
func Hash(parts ...string) string {
	h := sha256.New()
	for _, p := range parts {
		h.Write([]byte(p))
		h.Write([]byte{0})
	}
	return hex.EncodeToString(h.Sum(nil))[:16]
}

// Recorder accumulates what a shard covered; Flush writes it where /verif/check merges it.
type Recorder struct {
	mu          sync.Mutex
	ID          string
	env         Env
	start       time.Time
	Evaluations int
	nontrivial  map[string]bool
	all         map[string]bool
	Labels      map[string]int
	Counters    map[string]int
	Samples     []any
	maxSamples  int
	Rule        string
	Assumptions []string
	Exhaustive  bool
	Notes       map[string]any
}

// NewRecorder creates the recorder of property id for this shard.
func NewRecorder(id string, env Env, rule string) *Recorder {
	return &Recorder{ID: id, env: env, start: time.Now(), nontrivial: map[string]bool{}, all: map[string]bool{},
		Labels: map[string]int{}, Counters: map[string]int{}, maxSamples: 4, Rule: rule, Notes: map[string]any{}}
}

// Case records one generated case. hash identifies it (distinctness), nontrivial is the property's rule evaluated on
// it, labels are the features it exercised, sample (may be nil) renders it for the evidence file.
func (r *Recorder) Case(hash string, nontrivial bool, labels []string, sample func() any) {
	r.mu.Lock()
	defer r.mu.Unlock()
	r.Evaluations++
	first := !r.all[hash]
	r.all[hash] = true
	if len(r.Samples) == 0 && sample != nil {
		// always show at least one explored case
		r.Samples = append(r.Samples, sample())
	}
	if nontrivial {
		if !r.nontrivial[hash] {
			r.nontrivial[hash] = true
			if first || true {
				for _, l := range labels {
					r.Labels[l]++
				}
			}
			if sample != nil && len(r.Samples) < r.maxSamples {
				r.Samples = append(r.Samples, sample())
			}
		}
	}
}

// Count adds n to a named counter (inconclusive, excluded_by_known_finding, slow, ...).
func (r *Recorder) Count(name string, n int) {
	r.mu.Lock()
	defer r.mu.Unlock()
	r.Counters[name] += n
}

// Note stores a free-form value in the evidence.
func (r *Recorder) Note(k string, v any) {
	r.mu.Lock()
	defer r.mu.Unlock()
	r.Notes[k] = v
}

type shardFile struct {
	ID          string         `json:"property_id"`
	Shard       int            `json:"shard"`
	Evaluations int            `json:"evaluations"`
	Nontrivial  []string       `json:"nontrivial_hashes"`
	Distinct    int            `json:"distinct"`
	Labels      map[string]int `json:"labels"`
	Counters    map[string]int `json:"counters"`
	Samples     []any          `json:"samples"`
	Rule        string         `json:"rule"`
	Assumptions []string       `json:"assumptions"`
	Exhaustive  bool           `json:"exhaustive"`
	Notes       map[string]any `json:"notes"`
	WallS       float64        `json:"wall_s"`
}

// Flush writes the shard file.
func (r *Recorder) Flush() {
	r.mu.Lock()
	defer r.mu.Unlock()
	sf := shardFile{ID: r.ID, Shard: r.env.Shard, Evaluations: r.Evaluations, Labels: r.Labels, Counters: r.Counters,
		Samples: r.Samples, Rule: r.Rule, Assumptions: r.Assumptions, Exhaustive: r.Exhaustive, Notes: r.Notes,
		WallS: time.Since(r.start).Seconds(), Distinct: len(r.all)}
	for h := range r.nontrivial {
		sf.Nontrivial = append(sf.Nontrivial, h)
	}
	sort.Strings(sf.Nontrivial)
	b, _ := json.MarshalIndent(sf, "", " ")
	_ = os.WriteFile(filepath.Join(r.env.Out, fmt.Sprintf("shard-%s-%d.json", r.ID, r.env.Shard)), b, 0o644)
}

// Violation describes one failing case; it is written to the run's scratch directory every time a case fails, so
// that after rapid's shrinking the directory holds the minimal one. /verif/check moves it under /verif/replays.
type Violation struct {
	ID        string            `json:"property"`
	Signature string            `json:"signature"` // root-cause grouping key
	What      string            `json:"what"`
	Files     map[string]string `json:"-"`
	Kind      string            `json:"kind"` // name of the replay routine
	Meta      map[string]any    `json:"meta,omitempty"`
}

// Report writes the violation directory (overwriting the previous one of this shard and kind) and returns a one-line
// description usable in t.Fatalf.
func (e Env) Report(v Violation) string {
	dir := filepath.Join(e.Out, fmt.Sprintf("viol-%s-%d", v.ID, e.Shard))
	_ = os.RemoveAll(dir)
	_ = os.MkdirAll(dir, 0o755)
	_ = WriteFiles(dir, v.Files)
	b, _ := json.MarshalIndent(v, "", " ")
	_ = os.WriteFile(filepath.Join(dir, "violation.json"), b, 0o644)
	return fmt.Sprintf("property %s violated [%s]: %s", v.ID, v.Signature, v.What)
}

// Truncate shortens a program text for the evidence samples.
func Truncate(s string, lines int) string {
	ls := strings.Split(s, "\n")
	if len(ls) > lines {
		ls = append(ls[:lines], fmt.Sprintf("... (%d more lines)", len(ls)-lines))
	}
	return strings.Join(ls, "\n")
}

// RapidSeed maps VERIF_SEED and the shard to a rapid seed that is never 0.
func (e Env) RapidSeed(salt int) uint64 {
	return uint64(1 + (int64(e.Seed)*1000003+int64(e.Shard)*7919+int64(salt)*104729)%2147483645)
}

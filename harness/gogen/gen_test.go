package gogen

import (
	"testing"

	"github.com/awslabs/ar-go-tools/verifharness/core"
	"pgregory.net/rapid"
)

func TestConcurrentProgramsTypecheck(t *testing.T) {
	rapid.Check(t, func(t *rapid.T) {
		p := Generate(t, ConcurrentProfile(nil))
		_, err := core.LoadSource(map[string]string{"main.go": p.Main, "prelude.go": AnalysedPrelude})
		if err != nil {
			t.Fatalf("%v\n%s", err, p.Main)
		}
	})
}

func TestDispatchProgramsTypecheck(t *testing.T) {
	rapid.Check(t, func(t *rapid.T) {
		p := Generate(t, DispatchProfile(nil))
		_, err := core.LoadSource(map[string]string{"main.go": p.Main, "prelude.go": AnalysedPrelude})
		if err != nil {
			t.Fatalf("%v\n%s", err, p.Main)
		}
	})
}

func TestGeneratedProgramsTypecheck(t *testing.T) {
	n := 0
	rapid.Check(t, func(t *rapid.T) {
		p := Generate(t, WildProfile(nil))
		_, err := core.LoadSource(map[string]string{"main.go": p.Main, "prelude.go": AnalysedPrelude})
		if err != nil {
			t.Fatalf("%v\n%s", err, p.Main)
		}
		n++
	})
	t.Logf("%d programs", n)
}

#!/usr/bin/env python3
"""Regenerates /verif/MANIFEST.json from the table below (keeps it schema-valid at all times)."""
import json, os, sys

ROOT = os.path.dirname(os.path.dirname(os.path.abspath(__file__)))

# id -> (technique, level text, level note, design ref)
CLAIMED = {
    "C01": ("rapid-generated Go programs executed natively (marker-carrying sources, reflective sinks) as ground truth vs reported taint flows; 4 configurations",
            "Exploration: every source->sink flow that a native execution of a generated program exhibited was reported under eager/on-demand "
            "(x field-sensitive unless excluded by a recorded finding); no absence claim beyond the explored programs and valuations.",
            "Dynamic ground truth is an under-approximation (bounded programs, sampled valuations). Shapes matching the recorded known findings "
            "(interface boxing then mutation, reachability aliasing, writes through globals, rotating recursion, field-sensitive mode) are excluded by construction and counted.",
            "DESIGN.md §3 C01"),
    "C02": ("same native ground truth with sanitizer (marker rewriting) and validator (approval log) semantics; rapid programs over all documented validator shapes",
            "Exploration: every raw, unapproved source marker that reached a sink natively was reported although sanitizers/validators were configured.",
            "Approval of any value containing a source's marker cancels the obligation for that execution (conservative); same exclusions as C01.",
            "DESIGN.md §3 C02"),
    "C03": ("native ground truth (origin markers found in backtrace-point arguments) vs lines on reported traces; trace validity predicate (ends at entry, consecutive nodes connected)",
            "Exploration: every origin observed natively in an argument of a backtrace point was on a trace of that argument (eager and on-demand) and every reported trace was well-formed.",
            "Same dynamic under-approximation and exclusions as C01 (shared flow machinery); connectivity accepts intra-summary edges in either direction because the traversal itself follows both.",
            "DESIGN.md §3 C03"),
    "C04": ("rapid property test against a reference model: drawn RE2 specifications (package, method, context, value-match) x generated two-package modules with probe sites of every call form; Go regexp model of spec matching, both directions",
            "Exploration: on every explored (module, specification) a probe was treated as source/sink exactly when one of its possible callees matches the specification's package/method/context patterns.",
            "The model takes the possible callees from the probe's construction (generator knowledge), not from the tool; specifications that match the probes' own helper functions are redrawn.",
            "DESIGN.md §3 C04"),
    "C08": ("invariant check against an independently computed relation: SSA def-use chains of value-computing instructions vs paths in the function's summary graph; plus closure of the final abstract state (post-block callback) along every CFG edge; rapid-generated programs and repository testdata",
            "Exploration: every def-use chain from a parameter/free variable/call result to a return, call argument, captured variable or branch condition had a path in the summary graph of every explored function, and every (value, access path, origin) attached at an instruction was attached at each control-flow successor in the final state of every explored function.",
            "Memory operations are outside the demanded relation. The slot of a Defer instruction (where the RunDefers simulation stores the marks of the deferred call) is not judged as a program point (DESIGN.md section 6); field-sensitive closure on a quarter of the generated programs only.",
            "DESIGN.md §3 C08"),
    "C09": ("differential test: each standard-library summary template is executed natively (marker found in the result = real flow) and analysed with the predefined-summary table in force; conformance audit of table entries",
            "Exploration: every flow argument->result / argument->receiver that a native execution of a template exhibited was reported by the taint analysis using the built-in summary.",
            "Only functions the templates invoke get the dynamic oracle; a marker transformed by the real function creates no obligation.",
            "DESIGN.md §3 C09"),
    "C11": ("native ground truth: probe statements log retained pointers at run time; overlapping memory of two probes vs intersecting points-to sets of the probed SSA values",
            "Exploration: every pair of probes that referred to the same object in some execution had intersecting points-to sets on the explored pointer-profile programs.",
            "The allocation-site half of the property is checked through the same intersection (labels are allocation sites); reflection and unsafe are outside the generator.",
            "DESIGN.md §3 C11"),
    "C13": ("native ground truth under drawn schedules (GOMAXPROCS, yields) of concurrent-flow programs vs taint analysis with use-escape-analysis: flow reported, or escape reported, or loud error",
            "Exploration: no observed source->sink flow of a concurrent program was missed silently by the escape-aware taint analysis (eager and on-demand) on the explored programs and schedules.",
            "Schedules are sampled, not enumerated; shares the recorded exclusions of C01 (the same flow engine).",
            "DESIGN.md §3 C13"),
    "C14": ("Go race detector (-race, halt_on_error=0) on native runs of generated concurrent programs as ground truth vs locality claims from the public EscapeAnalysisState interface over all derived contexts",
            "Exploration: no line on which the race detector reported the LATER access of a race (write or read) consisted only of instructions of that kind classified thread-local in the merged contexts of their functions.",
            "The earlier access of a report is not judged (unsynchronised publication); lines with builtins, string/slice conversions, range/select or position-less loads are not judged; the race detector only sees interleavings that occur; contexts are merged per function (sound by monotonicity, C15).",
            "DESIGN.md §3 C14"),
    "C15": ("algebraic-law property test over escape graphs taken from real analyses (verif-tagged accessors) and rapid-weakened variants: semilattice laws, monotone transfer functions, order independence",
            "Exploration: idempotence, commutativity, associativity, upper bound, a<=b => join=b, status closure, monotonicity of every instruction's transfer function and equal summaries across re-runs held on all explored graphs.",
            "Worklist orders are sampled through map iteration order across repeated analyses, not permuted explicitly; weakened graphs on which a transfer function panics are discarded. Monotonicity is judged on two kinds of ordered pairs: (fixpoint graph at block start, weakened variant) for every instruction and (function's initial graph, fixpoint graph at block start) for non-call instructions and builtins; weakening adds no synthetic edges, so an effect that depends on an edge no arising graph lacks is out of reach (seeded change C15b, DESIGN.md 7.6).",
            "DESIGN.md §3 C15"),
    "C05": ("metamorphic property test: same program under drawn option vectors vs default options (set equality / max-alarms law), generated programs and repository testdata",
            "Exploration: reported pair sets were invariant under every explored option vector; the max-alarms subset/size/non-emptiness law held.",
            "Relies on C06 (determinism) for the baseline; filters matching std packages are only used on import-free programs.",
            "DESIGN.md §3 C05"),
    "C06": ("metamorphic repetition: each generated program analysed R times in fresh states (map order and scheduling re-randomised), identical pair sets required",
            "Exploration: no run-to-run difference on the explored programs; order dependences of low probability can escape (sampled, not enumerated).",
            "The Go runtime's map-iteration randomisation and the scheduler are the only sources of perturbation.",
            "DESIGN.md §3 C06"),
    "C07": ("crash/budget fuzzing of all analysis entry points on 'wild' generated programs in a killable child process",
            "Exploration: every entry point returned (no panic, no process death, within budget) on the explored programs; divergence is only suspected through budgets.",
            "Budgets are CPU time of the analysis process. Steps and shapes named by recorded findings (field-sensitive taint; closure self-application; over-budget backtrace runs) are excluded and counted.",
            "DESIGN.md §3 C07"),
    "C10": ("rapid property test against a reference model (0/1 spec matrices vs reported flows), exhaustive matrices in thorough tier",
            "Exploration: every generated (signature, call form, function/interface spec matrix, independently drawn body) "
            "case reported exactly the flows the matrix lists; no absence claim beyond the explored cases.",
            "Trusts the in-process SSA loader to equal the documented loader on import-free programs; flows implied only by the "
            "transitive closure of listed argument flows are not judged.",
            "DESIGN.md §3 C10"),
    "C12": ("native ground truth: functions entered and (call-site line, callee) pairs from the run-time stack vs reachable set, call-graph edges through wrappers, ResolveCallee",
            "Exploration: every executed function was in ReachableFunctions() and every dynamic caller->callee transfer had a call-graph edge and was resolved, on the explored dispatch programs.",
            "Deferred calls are matched against the defers of the functions spanning the line; goroutines are not part of this profile.",
            "DESIGN.md §3 C12"),
    "C16": ("reference-model comparison: explicit-state enumeration of (block, defer stack) on the SSA CFG vs defers.AnalyzeFunction; rapid sampling + exhaustive small bodies; native execution of the sampled bodies as ground truth",
            "Exploration (exhaustive for bodies of <= 3/4 statement nodes of the grammar): boundedness and exact stack sets agreed with the model on every body.",
            "The model works on the same SSA CFG the tool sees (x/tools SSA builder trusted); the execution half (bodies built and run natively, executed defer order vs the reported set of that exit, repeated push obliges 'unbounded') is independent of the model but one-directional.",
            "DESIGN.md §3 C16"),
    "C17": ("invariant checking (I1-I4) over every inter-procedural graph built for generated and testdata programs, eager and on-demand",
            "Exploration: in/out mirror, call-site, closure and global-location invariants held on every graph inspected.",
            "Graphs are inspected after the analysis returns (public accessors).",
            "DESIGN.md §3 C17"),
    "C18": ("native ground truth (executed functions) + set laws (call-graph reachable subset, containment, monotonicity in root selection) vs reachability.FindReachable",
            "Exploration: executed functions were reported reachable, the pointer call graph's reachable functions were contained, and excluding roots never added functions.",
            "The universe of 'functions of the program' is package members, method sets, their anonymous functions and generic instances.",
            "DESIGN.md §3 C18"),
    "C19": ("reference model (generator knows which entry functions have a directly recovering defer) + native crash traces vs argot maypanic JSON findings",
            "Exploration: every go statement of the explored forms whose entry function lacks a recovering defer was reported with its creation site; crash traces named reported creators.",
            "Launch forms named by recorded findings (function value, interface method) are excluded from generation and replayed as known findings.",
            "DESIGN.md §3 C19"),
    "C20": ("differential test of MapParallel vs Map; race-detector build (-race, halt_on_error) of the analysis driver over generated programs x report options; goroutine-count and report-completeness oracles",
            "Exploration: no race report, no goroutine outliving Analyze, complete report files and order-preserving MapParallel on the explored cases and schedules.",
            "The race detector only sees interleavings that occur; GOMAXPROCS variation and repetition sample them.",
            "DESIGN.md §3 C20"),
}

PENDING_REASON = "check not built yet in this session (work in progress; see DESIGN.md §5 build order)"


def main():
    props = [json.loads(l) for l in open(os.path.join(ROOT, "properties.jsonl"))]
    checks = []
    na = []
    for p in props:
        pid = p["id"]
        if pid in CLAIMED:
            tech, text, note, ref = CLAIMED[pid]
            checks.append({
                "property_id": pid,
                "quick_cmd": "./check %s quick" % pid,
                "thorough_cmd": "./check %s thorough" % pid,
                "evidence_file": "evidence/%s.json" % pid,
                "replay_cmd_template": "./check %s --replay {path}" % pid,
                "engine": "harness",
                "level_claimed": {"category": "exploration", "text": text, "design_ref": ref},
                "level_note": note,
                "technique": tech,
            })
        else:
            na.append({"property_id": pid, "reason": NA.get(pid, PENDING_REASON)})
    hooks_commits = []
    hc = os.path.join(ROOT, "hooks_commits.txt")
    if os.path.exists(hc):
        hooks_commits = [l.strip() for l in open(hc) if l.strip()]
    m = {
        "version": 1,
        "setup_cmd": "./setup.sh",
        "hooks": {
            "guard": "verif",
            "enable": "go test -tags verif (the harness module in /verif/harness replaces github.com/awslabs/ar-go-tools by /repo)",
            "baseline_off_cmd": "cd /repo && GOFLAGS=-mod=mod GOPROXY=off go test -json -vet=off -count=1 -timeout 25m ./...",
            "source_commits": hooks_commits,
            "add_only": True,
        },
        "engines": [{
            "name": "harness",
            "path": "harness",
            "serves_properties": sorted(CLAIMED),
            "kind_free_text": "Go module (pgregory.net/rapid v1.3.0) with program generators, native ground-truth runner, "
                              "reference models and analysis drivers; driven by ./check",
        }],
        "checks": checks,
        "not_applicable": na,
        "notes": "All checks are property-based tests / fuzzing over generated inputs (level: exploration). See DESIGN.md.",
    }
    json.dump(m, open(os.path.join(ROOT, "MANIFEST.json"), "w"), indent=1)
    print("claimed:", len(checks), "not_applicable:", len(na))


NA = {}

if __name__ == "__main__":
    main()

package checks

import (
	"fmt"
	"os"
	"path/filepath"
	"sort"
	"strings"
	"testing"
	"time"

	"github.com/awslabs/ar-go-tools/verifharness/core"
	"github.com/awslabs/ar-go-tools/verifharness/gogen"
	"github.com/awslabs/ar-go-tools/verifharness/native"
	"pgregory.net/rapid"
)

// C01: every explicit source-to-sink flow that a native execution exhibits is reported, under all four
// {field-sensitive x summarize-on-demand} configurations.

// flowChecker analyses each generated case once under every variant (pre: panics are violations by themselves and
// need no native run) and then compares with the native observations (judge).
type flowChecker struct {
	id              string
	rec             *core.Recorder
	variants        []taintVariant
	respectApproval bool
	lastKey         string
	lastOuts        []*core.TaintOutcome
	nslow           int
	ncollect        int
	worker          *core.Worker
}

func (fc *flowChecker) variant(i int) taintVariant {
	v := fc.variants[i]
	if fc.id == "C02" {
		v.Opts.Sanitizers = []string{"^sanitize1$"}
		v.Opts.Validators = []string{"^validate1$", "^validateE$", "^validateT$"}
	}
	return v
}

func (fc *flowChecker) analyse(t *rapid.T, c *flowCase) []*core.TaintOutcome {
	if fc.lastKey == c.Key && fc.lastOuts != nil {
		return fc.lastOuts
	}
	var outs []*core.TaintOutcome
	for i := range fc.variants {
		v := fc.variant(i)
		if v.Opts.FieldSensitive && excluded()["variant:fieldsens"] {
			// known finding: the field-sensitive mode drops flows / does not terminate in reasonable time
			fc.rec.Count("excluded_by_known_finding", 1)
			outs = append(outs, &core.TaintOutcome{Pairs: map[core.Pair]bool{}, Err: fmt.Errorf("excluded")})
			continue
		}
		budget := analysisBudget()
		if v.Opts.FieldSensitive {
			budget /= 4
		}
		if fc.worker == nil {
			fc.worker = core.NewWorker(env.Root)
		}
		o, over, err := fc.worker.Taint(c.files(), v.Opts.YAML(), budget)
		if died, ok := err.(*core.ErrWorkerDied); ok {
			fc.rec.Count("analysis_killed_process", 1)
			msg := writeFlowViolation(fc.id, strings.ToLower(fc.id), c, v, "taint analysis killed the process: "+oneLine(lastN(died.Stderr, 1500)), nil, "crash-"+crashSite(died.Stderr))
			t.Fatalf("%s", msg)
		} else if err != nil {
			t.Fatalf("HARNESS: analysis worker: %v", err)
		}
		if over {
			// over budget: kept for C07 triage, not judged here
			fc.rec.Count("analysis_over_budget", 1)
			fc.nslow++
			dir := filepath.Join(env.Out, fmt.Sprintf("slow-%s-%d-%d", fc.id, env.Shard, fc.nslow))
			files := c.files()
			files["config.yaml"] = v.Opts.YAML()
			_ = core.WriteFiles(dir, files)
			o = &core.TaintOutcome{Pairs: map[core.Pair]bool{}, Err: fmt.Errorf("over budget")}
		}
		outs = append(outs, o)
	}
	fc.lastKey, fc.lastOuts = c.Key, outs
	return outs
}

func (fc *flowChecker) pre(t *rapid.T, c *flowCase) {
	for i, out := range fc.analyse(t, c) {
		if out.Panic != "" {
			fc.rec.Count("analysis_panicked", 1)
			msg := writeFlowViolation(fc.id, strings.ToLower(fc.id), c, fc.variant(i), "taint analysis panicked: "+oneLine(out.Panic), nil, "panic-"+panicSite(out.Panic))
			t.Fatalf("%s", msg)
		}
	}
}

func (fc *flowChecker) judge(t *rapid.T, c *flowCase, res *native.Result) {
	obs := observedFlows(res, fc.respectApproval)
	panics, crashes := runStats(res)
	labels := c.Prog.FeatList()
	nt := nontrivialFlow(c.Prog, obs)
	if fc.id == "C02" {
		nt = len(obs) > 0 && (c.Prog.Feats["sanitizer"] || c.Prog.Feats["validator"])
	}
	fc.rec.Case(c.Key, nt, labels, func() any {
		return map[string]any{"program_from_first_function": core.Truncate(afterDecls(c.Prog.Main), 60), "observed_flows": pairKeys(obs), "valuations": len(c.Vals)}
	})
	fc.rec.Count("native_runs", len(res.Runs))
	fc.rec.Count("native_runs_panicked", panics)
	fc.rec.Count("native_runs_crashed", crashes)
	fc.rec.Count("excluded_by_known_finding", c.Prog.Excluded)
	fc.rec.Count("observed_flows_excluded_deep_reachability", deepExcluded)
	deepExcluded = 0
	if len(obs) == 0 {
		fc.rec.Count("cases_without_observed_flow", 1)
		return
	}
	for i, out := range fc.analyse(t, c) {
		v := fc.variant(i)
		if out.Err != nil {
			fc.rec.Count("analysis_failed_loudly", 1)
			continue
		}
		var missing []string
		for f := range obs {
			if !out.Pairs[core.Pair{SrcFile: "main.go", Src: f[0], SinkFile: "main.go", Sink: f[1]}] {
				missing = append(missing, fmt.Sprintf("%d->%d", f[0], f[1]))
			}
		}
		if len(missing) > 0 {
			sort.Strings(missing)
			what := fmt.Sprintf("flows observed in a native execution are not reported under %s: %s (reported: %s)", v.Name,
				strings.Join(missing, ","), strings.Join(out.PairList(), ","))
			if cd := os.Getenv("VERIF_COLLECT"); cd != "" {
				// triage mode: keep every failing case and go on
				fc.ncollect++
				d := filepath.Join(cd, fmt.Sprintf("%s-%d-%d", fc.id, env.Shard, fc.ncollect))
				_ = writeFlowViolation(fc.id, strings.ToLower(fc.id), c, v, what, obs, "missed-"+featureSignature(c.Prog))
				_ = os.Rename(filepath.Join(env.Out, fmt.Sprintf("viol-%s-%d", fc.id, env.Shard)), d)
				_ = core.WriteFiles(d, map[string]string{"what.txt": what + "\n" + strings.Join(c.Prog.FeatList(), " ") + "\n"})
				continue
			}
			if knownInput(fc.id, c.Prog.Main) {
				// a recorded finding identified by this very program (see known_findings.json): reported by the replay
				// of the finding as KNOWN-FINDING, not as a new violation
				fc.rec.Count("excluded_by_known_finding", 1)
				fc.rec.Count("generated_program_is_a_recorded_finding", 1)
				continue
			}
			msg := writeFlowViolation(fc.id, strings.ToLower(fc.id), c, v, what, obs, "missed-"+featureSignature(c.Prog))
			t.Fatalf("%s", msg)
		}
	}
}

// knownInput reports whether the program is, line for line, the stored input of a known (unrepaired) finding of the
// property: such a finding is identified by its specific input and has no generator exclusion.
func knownInput(id, main string) bool {
	for _, f := range loadFindings() {
		if f.Property != id || f.Status != "known" {
			continue
		}
		b, err := os.ReadFile(filepath.Join(env.Root, f.Repro, "main.go"))
		if err == nil && string(b) == main {
			return true
		}
	}
	return false
}

func afterDecls(main string) string {
	if i := strings.Index(main, "var GPP"); i >= 0 {
		return main[i:]
	}
	return main
}

func panicSite(stack string) string {
	for _, l := range strings.Split(stack, "\n") {
		l = strings.TrimSpace(l)
		if strings.Contains(l, "/analysis/") || strings.Contains(l, "/internal/") {
			if i := strings.LastIndex(l, "/"); i >= 0 {
				l = l[i+1:]
			}
			if j := strings.LastIndex(l, "("); j >= 0 {
				l = l[:j]
			}
			return l
		}
	}
	return "unknown"
}

func init() {
	replayers["c01"] = func(dir string) string { return replayFlowDir(dir, false) }
	replayers["c02"] = func(dir string) string { return replayFlowDir(dir, true) }
}

func TestC01(t *testing.T) {
	rec := core.NewRecorder("C01", env, "cases = generated import-free Go programs (flow profile: stores/loads, fields, slices, maps, "+
		"closures, defers, globals, interfaces, generics, multiple results...) executed natively under all-false, all-true and drawn "+
		"valuations of their opaque branch conditions (exhaustive for <=5 bits), analysed under {eager,on-demand}x{field-sensitive on/off}; "+
		"non-trivial = a flow was observed natively whose source and sink calls are in different functions or whose sunk variable "+
		"is not the variable that directly received the source result; distinct = hash of program text + valuations")
	rec.Assumptions = []string{"markers survive only explicit data operations, so an observed marker at a sink is an explicit flow",
		"in-process SSA build equals the documented loader for import-free programs (cross-checked by C05)",
		"analysis errors (loud failures) are counted, not judged"}
	defer rec.Flush()
	replayKnown(t, "C01")
	off := excluded()
	nv := 6
	if env.Thorough() {
		nv = 24
	}
	fc := &flowChecker{id: "C01", rec: rec, variants: c01Variants}
	tp := &twoPass{id: "C01", salt: 1, checks: env.Pick(1200, 6000), rec: rec,
		gen:   func(t *rapid.T) *flowCase { return genFlowCase(t, gogen.FlowProfile(off), nv) },
		judge: fc.judge, pre: fc.pre, opt: native.Options{InProcess: true}}
	tp.run(t)
}

// analysisBudget is the wall-clock budget of one analysis run on a generated program (they normally take milliseconds).
func analysisBudget() time.Duration {
	if env.Thorough() {
		return 120 * time.Second
	}
	return 40 * time.Second
}

func lastN(s string, n int) string {
	if len(s) > n {
		return s[len(s)-n:]
	}
	return s
}

func crashSite(stderr string) string {
	for _, l := range strings.Split(stderr, "\n") {
		if strings.HasPrefix(l, "fatal error:") || strings.HasPrefix(l, "panic:") {
			if len(l) > 60 {
				l = l[:60]
			}
			return l
		}
	}
	return "unknown"
}

package checks

import (
	"fmt"
	"os"
	"path/filepath"
	"sort"
	"strings"
	"testing"
	"time"

	"github.com/awslabs/ar-go-tools/analysis/config"
	df "github.com/awslabs/ar-go-tools/analysis/dataflow"
	"github.com/awslabs/ar-go-tools/verifharness/core"
	"github.com/awslabs/ar-go-tools/verifharness/gogen"
	"golang.org/x/tools/go/ssa"
	"pgregory.net/rapid"
)

// C08: function summaries cover every direct def-use chain of the function. Reference relation: reachability over the
// SSA operands of value-computing instructions (data operands only), compared with paths in the summary graph.

// c08Derives returns, for every value of fn, the values directly computed from it by a value-computing instruction.
func c08Derives(fn *ssa.Function) map[ssa.Value][]ssa.Value {
	d := map[ssa.Value][]ssa.Value{}
	add := func(from ssa.Value, to ssa.Value) {
		if from != nil {
			d[from] = append(d[from], to)
		}
	}
	for _, b := range fn.Blocks {
		for _, ins := range b.Instrs {
			switch v := ins.(type) {
			case *ssa.BinOp:
				add(v.X, v)
				add(v.Y, v)
			case *ssa.UnOp:
				// loads and channel receives go through memory: not a value computation
				if v.Op.String() != "*" && v.Op.String() != "<-" {
					add(v.X, v)
				}
			case *ssa.Convert:
				add(v.X, v)
			case *ssa.ChangeType:
				add(v.X, v)
			case *ssa.ChangeInterface:
				add(v.X, v)
			case *ssa.MakeInterface:
				add(v.X, v)
			case *ssa.TypeAssert:
				add(v.X, v)
			case *ssa.Field:
				add(v.X, v)
			case *ssa.Index:
				add(v.X, v)
			case *ssa.Slice:
				add(v.X, v)
			case *ssa.Extract:
				add(v.Tuple, v)
			case *ssa.Phi:
				for _, e := range v.Edges {
					add(e, v)
				}
			case *ssa.SliceToArrayPointer:
				add(v.X, v)
			case *ssa.Call:
				if bi, ok := v.Call.Value.(*ssa.Builtin); ok {
					switch bi.Name() {
					case "append", "min", "max", "len", "complex", "real", "imag", "ssa:wrapnilchk":
						for _, a := range v.Call.Args {
							add(a, v)
						}
					}
				}
			}
		}
	}
	return d
}

func c08Reach(d map[ssa.Value][]ssa.Value, from ssa.Value) map[ssa.Value]int {
	dist := map[ssa.Value]int{from: 0}
	q := []ssa.Value{from}
	for len(q) > 0 {
		x := q[0]
		q = q[1:]
		for _, y := range d[x] {
			if _, ok := dist[y]; !ok {
				dist[y] = dist[x] + 1
				q = append(q, y)
			}
		}
	}
	return dist
}

func summaryReach(from df.GraphNode) map[df.GraphNode]bool {
	seen := map[df.GraphNode]bool{}
	q := []df.GraphNode{from}
	for len(q) > 0 {
		x := q[0]
		q = q[1:]
		for y := range x.Out() {
			if !seen[y] {
				seen[y] = true
				q = append(q, y)
			}
		}
	}
	return seen
}

func isBuiltinCall(c ssa.CallInstruction) bool {
	_, ok := c.Common().Value.(*ssa.Builtin)
	return ok
}

type c08Stats struct {
	obligations, nontrivial int
}

// c08Check compares one constructed summary with the reference relation; returns the first uncovered chain.
func c08Check(g *df.SummaryGraph) (string, c08Stats) {
	var st c08Stats
	fn := g.Parent
	if fn == nil || len(fn.Blocks) == 0 || !g.Constructed || g.IsPreSummarized {
		return "", st
	}
	d := c08Derives(fn)
	type origin struct {
		v     ssa.Value
		nodes []df.GraphNode
		desc  string
	}
	var origins []origin
	for _, p := range fn.Params {
		if n, ok := g.Params[p]; ok && n != nil {
			origins = append(origins, origin{p, []df.GraphNode{n}, "parameter " + p.Name()})
		}
	}
	for _, fv := range fn.FreeVars {
		if n, ok := g.FreeVars[fv]; ok && n != nil {
			origins = append(origins, origin{fv, []df.GraphNode{n}, "free variable " + fv.Name()})
		}
	}
	for _, b := range fn.Blocks {
		for _, ins := range b.Instrs {
			c, ok := ins.(*ssa.Call)
			if !ok || isBuiltinCall(c) {
				continue
			}
			var ns []df.GraphNode
			for _, cn := range g.Callees[c] {
				ns = append(ns, cn)
			}
			if len(ns) > 0 {
				origins = append(origins, origin{c, ns, "result of call " + c.String()})
			}
		}
	}
	// targets
	type target struct {
		v     ssa.Value
		nodes []df.GraphNode
		desc  string
	}
	var targets []target
	for _, b := range fn.Blocks {
		for _, ins := range b.Instrs {
			switch x := ins.(type) {
			case *ssa.Return:
				rn := g.Returns[x]
				for i, r := range x.Results {
					if i < len(rn) && rn[i] != nil {
						targets = append(targets, target{r, []df.GraphNode{rn[i]}, fmt.Sprintf("returned value #%d", i)})
					}
				}
			case *ssa.If:
				if n := g.Ifs[x]; n != nil {
					targets = append(targets, target{x.Cond, []df.GraphNode{n}, "branch condition " + x.Cond.Name()})
				}
			case *ssa.MakeClosure:
				if cn := g.CreatedClosures[x]; cn != nil {
					for i, bv := range cn.BoundVars() {
						if i < len(x.Bindings) {
							targets = append(targets, target{x.Bindings[i], []df.GraphNode{bv}, fmt.Sprintf("captured variable #%d of %s", i, x.Fn.Name())})
						}
					}
				}
			}
			if ci, ok := ins.(ssa.CallInstruction); ok && !isBuiltinCall(ci) {
				for _, cn := range g.Callees[ci] {
					args := cn.Args()
					for i, a := range ci.Common().Args {
						off := 0
						if ci.Common().IsInvoke() {
							off = 1 // the receiver is argument 0 of the call node
						}
						if i+off < len(args) && args[i+off] != nil {
							targets = append(targets, target{a, []df.GraphNode{args[i+off]}, fmt.Sprintf("argument #%d of %s", i, ci.String())})
						}
					}
				}
			}
		}
	}
	for _, o := range origins {
		dist := c08Reach(d, o.v)
		var reach map[df.GraphNode]bool
		for _, t := range targets {
			dd, ok := dist[t.v]
			if !ok {
				continue
			}
			// a call's own arguments are not derived from its result
			skip := false
			for _, on := range o.nodes {
				for _, tn := range t.nodes {
					if a, ok := tn.(*df.CallNodeArg); ok && a.ParentNode() == on {
						skip = true
					}
				}
			}
			if skip {
				continue
			}
			st.obligations++
			if dd >= 2 {
				st.nontrivial++
			}
			for _, on := range o.nodes {
				if reach == nil || len(o.nodes) > 1 {
					reach = summaryReach(on)
				}
				for _, tn := range t.nodes {
					if !reach[tn] {
						return fmt.Sprintf("in %v the SSA form derives %s from %s through %d value-computing instruction(s), but the summary has no path between the corresponding nodes", fn, t.desc, o.desc, dd), st
					}
				}
			}
		}
	}
	return "", st
}

func c08Program(rec *core.Recorder, state *df.AnalyzerState, onlyMain bool) (string, c08Stats) {
	var tot c08Stats
	var fns []*ssa.Function
	for f := range state.FlowGraph.Summaries {
		fns = append(fns, f)
	}
	sort.Slice(fns, func(i, j int) bool { return fns[i].String() < fns[j].String() })
	for _, f := range fns {
		g := state.FlowGraph.Summaries[f]
		if g == nil {
			continue
		}
		if onlyMain && (f.Pkg == nil || f.Pkg.Pkg.Name() != "main") && f.Parent() == nil {
			continue
		}
		msg, st := c08Check(g)
		tot.obligations += st.obligations
		tot.nontrivial += st.nontrivial
		if msg != "" {
			return msg, tot
		}
	}
	return "", tot
}

func TestC08(t *testing.T) {
	rec := core.NewRecorder("C08", env, "cases = functions summarised while analysing generated flow programs (field-insensitive) and the "+
		"repository's testdata programs; oracle: for every chain of value-computing SSA instructions (BinOp, UnOp except load/receive, "+
		"conversions, MakeInterface, TypeAssert, Field, Index, Slice on their data operand, Extract, Phi, propagating builtins) from a "+
		"parameter / free variable / call result to a returned value, a call argument, a captured variable of a created closure or a branch "+
		"condition, the summary graph has a path between the corresponding nodes; non-trivial = program with >= 5 chains of length >= 2; "+
		"distinct = hash(program)")
	rec.Assumptions = []string{"memory (loads, stores), cap, map lookups, range and select are not part of the demanded relation",
		"second sentence (closure under control-flow propagation): the final FlowInformation of every reachable function, obtained through the public post-block callback of dataflow.IntraProceduralAnalysis on a fresh analyzer state, must satisfy marks(i, v, path) within marks(j, v, path) for every CFG edge i->j between non-ignored instructions; field-sensitive for a quarter of the generated programs"}
	defer rec.Flush()
	replayKnown(t, "C08")
	rapidSetup(env.Pick(1500, 15000), 8)
	rapid.Check(t, func(rt *rapid.T) {
		prog := gogen.Generate(rt, gogen.FlowProfile(nil))
		files := map[string]string{"main.go": prog.Main, "prelude.go": gogen.AnalysedPrelude}
		l, err := core.LoadSource(files)
		if err != nil {
			rt.Fatalf("HARNESS: %v", err)
		}
		out := core.RunTaintBudget(core.MustConfig(core.TaintOpts{}.YAML()), l, analysisBudget())
		if out == nil || out.Panic != "" || out.Result.State == nil {
			rec.Count("inconclusive", 1)
			return
		}
		msg, st := c08Program(rec, out.Result.State, false)
		rec.Case(core.Hash(prog.Main), st.nontrivial >= 5, prog.FeatList(), func() any {
			return map[string]any{"program_from_first_function": core.Truncate(afterDecls(prog.Main), 40), "chains_checked": st.obligations, "chains_of_length_2_or_more": st.nontrivial}
		})
		rec.Count("chains_checked", st.obligations)
		if msg == "" {
			// second sentence of the property: closure of the final abstract state along the CFG
			fs := rapid.IntRange(0, 3).Draw(rt, "c08b-field-sensitive") == 0
			m2, st2, inc := c08bProgram(l, fs, false, analysisBudget())
			if inc {
				rec.Count("cfg_closure_inconclusive", 1)
			}
			rec.Count("cfg_closure_functions", st2.functions)
			rec.Count("cfg_closure_edges", st2.edges)
			rec.Count("cfg_closure_marks_checked", st2.marks)
			rec.Count("cfg_closure_back_edges", st2.backEdges)
			if fs {
				rec.Count("cfg_closure_field_sensitive_programs", 1)
			}
			if m2 != "" {
				sig := "cfg-closure"
				if fs {
					sig += "-fieldsens"
				}
				files2 := map[string]string{"main.go": prog.Main, "prelude.go": gogen.AnalysedPrelude}
				m := env.Report(core.Violation{ID: "C08", Signature: sig, What: m2, Files: files2, Kind: "c08"})
				rt.Fatalf("%s", m)
			}
		}
		if msg != "" {
			sig := "uncovered"
			for _, k := range []string{"returned value", "argument #", "captured variable", "branch condition"} {
				if strings.Contains(msg, k) {
					sig += "-" + strings.Fields(k)[0]
				}
			}
			m := env.Report(core.Violation{ID: "C08", Signature: sig, What: msg, Files: files, Kind: "c08"})
			rt.Fatalf("%s", m)
		}
	})
	if t.Failed() {
		return
	}
	idx := 0
	skip := map[string]bool{"benchmark": true, "agent-example": true, "stdlib": true, "stdlib_121": true, "stdlib-no-effect-constraint": true}
	for _, dir := range testdataPrograms() {
		name := filepath.Base(dir)
		if skip[name] && !env.Thorough() {
			continue
		}
		idx++
		if idx%env.Shards != env.Shard {
			continue
		}
		cfgText, err := os.ReadFile(filepath.Join(dir, "config.yaml"))
		if err != nil {
			continue
		}
		l, err := core.LoadDisk(dir, goFilesOf(dir), true)
		if err != nil {
			continue
		}
		y := mergeOptions(string(cfgText), map[string]any{"log-level": 1, "summarize-on-demand": false, "field-sensitive": false})
		cfg, err := config.Load(filepath.Join(dir, "config.yaml"), []byte(y))
		if err != nil {
			continue
		}
		out := core.RunTaintBudget(cfg, l, 5*time.Minute)
		if out == nil || out.Panic != "" || out.Result.State == nil {
			rec.Count("inconclusive", 1)
			continue
		}
		msg, st := c08Program(rec, out.Result.State, false)
		rec.Case(core.Hash("testdata", name), st.nontrivial >= 5, []string{"testdata:" + name}, func() any {
			return map[string]any{"testdata": name, "chains_checked": st.obligations}
		})
		rec.Count("chains_checked", st.obligations)
		if msg == "" {
			m2, st2, inc := c08bProgram(l, false, true, 5*time.Minute) // user-package functions only
			if inc {
				rec.Count("cfg_closure_inconclusive", 1)
			}
			rec.Count("cfg_closure_functions", st2.functions)
			rec.Count("cfg_closure_edges", st2.edges)
			rec.Count("cfg_closure_marks_checked", st2.marks)
			rec.Count("cfg_closure_back_edges", st2.backEdges)
			msg = m2
		}
		if msg != "" {
			m := env.Report(core.Violation{ID: "C08", Signature: "testdata-uncovered", What: "testdata/" + name + ": " + msg,
				Files: map[string]string{"testdata.txt": dir + "\n"}, Kind: "c08-testdata"})
			t.Fatalf("%s", m)
		}
	}
}

func init() {
	replayers["c08"] = func(dir string) string {
		files := map[string]string{}
		for _, n := range []string{"main.go", "prelude.go"} {
			b, err := os.ReadFile(filepath.Join(dir, n))
			if err != nil {
				return "HARNESS cannot read " + n
			}
			files[n] = string(b)
		}
		l, err := core.LoadSource(files)
		if err != nil {
			return "HARNESS load: " + err.Error()
		}
		out := core.RunTaintBudget(core.MustConfig(core.TaintOpts{}.YAML()), l, 2*analysisBudget())
		if out == nil || out.Panic != "" || out.Result.State == nil {
			return ""
		}
		msg, _ := c08Program(nil, out.Result.State, false)
		if msg == "" {
			msg, _, _ = c08bProgram(l, false, false, 2*analysisBudget())
		}
		if msg == "" {
			msg, _, _ = c08bProgram(l, true, false, 2*analysisBudget())
		}
		return msg
	}
	replayers["c08-testdata"] = func(dir string) string {
		tb, _ := os.ReadFile(filepath.Join(dir, "testdata.txt"))
		td := strings.TrimSpace(string(tb))
		if i := strings.Index(td, "/analysis/taint/testdata/"); i >= 0 {
			td = env.Repo + td[i:]
		}
		cfgText, err := os.ReadFile(filepath.Join(td, "config.yaml"))
		if err != nil {
			return "HARNESS cannot read config"
		}
		l, err := core.LoadDisk(td, goFilesOf(td), true)
		if err != nil {
			return "HARNESS load: " + err.Error()
		}
		y := mergeOptions(string(cfgText), map[string]any{"log-level": 1, "summarize-on-demand": false, "field-sensitive": false})
		cfg, err := config.Load(filepath.Join(td, "config.yaml"), []byte(y))
		if err != nil {
			return "HARNESS config"
		}
		out := core.RunTaintBudget(cfg, l, 10*time.Minute)
		if out == nil || out.Panic != "" || out.Result.State == nil {
			return ""
		}
		msg, _ := c08Program(nil, out.Result.State, false)
		if msg == "" {
			msg, _, _ = c08bProgram(l, false, true, 10*time.Minute)
		}
		return msg
	}
}

package main

import "unsafe"

type Tree struct {
	Kids []*Tree
	M    map[string]*Tree
	Up   *Tree
	V    string
}

type Rec func(Rec, string) string

type Stack[T any] struct{ items []T }

func (s *Stack[T]) Push(x T) { s.items = append(s.items, x) }
func (s *Stack[T]) Pop() T {
	var zero T
	if len(s.items) == 0 {
		return zero
	}
	x := s.items[len(s.items)-1]
	s.items = s.items[:len(s.items)-1]
	return x
}

func ext(x string) string

func even(n int, s string) string {
	if n <= 0 {
		return s
	}
	return odd(n-1, s+"e")
}

func odd(n int, s string) string {
	if n <= 0 {
		return s
	}
	return even(n-1, s+"o")
}

func walk(t *Tree, acc string) string {
	if t == nil {
		return acc
	}
	for _, k := range t.Kids {
		acc = walk(k, acc+t.V)
	}
	for _, k := range t.M {
		acc = walk(k, acc)
	}
	return walk(t.Up, acc)
}

func selfapp(r Rec, s string) string {
	if r == nil {
		return s
	}
	return r(r, s)
}

func bytesOf(s string) []byte { return unsafe.Slice(unsafe.StringData(s), len(s)) }

type S struct {
	A string
	B string
	P *string
	L []string
	M map[string]string
	N *S
	F func(string) string
	X any
	I Box
}

type E struct {
	S
	Z string
}

type Name string

type Box interface {
	Get() string
	Put(s string)
}

type BoxA struct{ v string }

func (b *BoxA) Get() string  { return b.v }
func (b *BoxA) Put(s string) { b.v = s }

type BoxB struct{ l []string }

func (b *BoxB) Get() string {
	if len(b.l) > 0 {
		return b.l[len(b.l)-1]
	}
	return ""
}
func (b *BoxB) Put(s string) { b.l = append(b.l, s) }

type BoxC struct{ p *string }

func (b BoxC) Get() string  { return *b.p }
func (b BoxC) Put(s string) { *b.p = s }

func (s *S) GetA() string   { return s.A }
func (s *S) SetA(x string)  { s.A = x }
func (s S) CopyB() string   { return s.B }
func (s *S) Self() *S       { return s }
func (s *S) Both() (string, string) { return s.A, s.B }

func idf(x string) string   { return x }
func dropf(x string) string { return "dropped" }

func ident[T any](x T) T { return x }

func pair[T any, U any](x T, y U) (U, T) { return y, x }

func vcat(xs ...string) string {
	r := ""
	for _, x := range xs {
		r += x
	}
	return r
}

func newS(a string) *S {
	return &S{A: a, P: new(string), L: make([]string, 2), M: map[string]string{}}
}

var G0 string
var GP = newS("")
var GS = S{P: new(string), L: make([]string, 2), M: map[string]string{}}
var GL = make([]string, 2)
var GM = map[string]string{}
var GA [2]string
var GF func(string) string = idf
var GX any
var GPP = new(string)
func f2(p0 any, p1 string, p2 *S) (string, map[string]string) {
	v1 := &Tree{V: p1, M: map[string]*Tree{}}; _ = v1
	v2 := walk(v1, ""); _ = v2
	v4 := even(3, v2); _ = v4
	var v10 Rec = func(rr Rec, ss string) string {
		if len(ss) > 8 {
			return ss
		}
		return rr(rr, ss+max(v4, v4))
	}
	v11 := selfapp(v10, ""); _ = v11
	return v11, p2.M
}
func f0(p0 Name, p1 map[string]string, p2 any) (string, string, Box) {
	v14, _ := f2(p2, string(p0), &S{A: "c13", P: new(string), L: make([]string, 2), M: map[string]string{}, B: string(p0)}); _, _ = v14, 0
	var v16 Box = BoxC{p: &v14}; _ = v16
	v17 := source1(159); _ = v17
	return string(p0), min("c19", v14, min(v17, v17, v17)), v16
}
func main() {
	var v20 Rec = func(rr Rec, ss string) string {
		return rr(rr, ss+"c21")
	}
	v22 := selfapp(v20, ""); _ = v22
	v23 := func() {
		v24 := func() {
		}
		v24()
	}
	defer v23()
	v31 := sanitize1(min(v22, v22)); _ = v31
	v32 := make(chan *S)
	go func() { v32 <- newS(v31) }()
	select {
	case x := <-v32:
		sink1(178, x)
	}
	defer f0(Name(v22), map[string]string{"k": v31}, any(v31))
	sink1(181, v22)
}

#!/bin/bash
# tools/reconfirm_suite.sh <id>: step 4 of confirm_seeded.sh alone (existing tests of the packages in existing.txt with the
# patch applied, scratch worktree), for changes whose first suite run was killed by the kernel's OOM killer.
id=$1; d=/verif/seeded/$id
export GOFLAGS=-mod=mod GOPROXY=off GOSUMDB=off GOTOOLCHAIN=local
wt=/tmp/rc-$id
git -C /repo worktree remove --force $wt 2>/dev/null; rm -rf $wt
git -C /repo worktree add --detach -q $wt HEAD || exit 3
trap 'git -C /repo worktree remove --force $wt 2>/dev/null; rm -rf $wt' EXIT
git -C $wt apply $d/patch.diff || { echo "$id: patch does not apply"; exit 1; }
pk=$(cat $d/existing.txt)
( cd $wt && go test -vet=off -count=1 -timeout 120m $pk ) > /tmp/rc-$id-suite.log 2>&1; r3=$?
echo "$id: existing tests ($pk) with the change, second run: exit $r3 (want 0) $(grep -c '^ok' /tmp/rc-$id-suite.log) ok / $(grep -c '^FAIL\|^---.FAIL' /tmp/rc-$id-suite.log) fail $(grep -c 'signal: killed\|signal: terminated' /tmp/rc-$id-suite.log) killed"
[ $r3 -eq 0 ] && echo "$id: CONFIRMED (demo steps in the first run, suite in the second)" || echo "$id: NOT-CONFIRMED"

#!/usr/bin/env python3
"""Regenerates /verif/MANIFEST.json from the table below (keeps it schema-valid at all times)."""
import json, os, sys

ROOT = os.path.dirname(os.path.dirname(os.path.abspath(__file__)))

# id -> (technique, level text, level note, design ref)
CLAIMED = {
    "C10": ("rapid property test against a reference model (0/1 spec matrices vs reported flows), exhaustive matrices in thorough tier",
            "Exploration: every generated (signature, call form, function/interface spec matrix, independently drawn body) "
            "case reported exactly the flows the matrix lists; no absence claim beyond the explored cases.",
            "Trusts the in-process SSA loader to equal the documented loader on import-free programs; flows implied only by the "
            "transitive closure of listed argument flows are not judged.",
            "DESIGN.md §3 C10"),
}

PENDING_REASON = "check not built yet in this session (work in progress; see DESIGN.md §5 build order)"


def main():
    props = [json.loads(l) for l in open(os.path.join(ROOT, "properties.jsonl"))]
    checks = []
    na = []
    for p in props:
        pid = p["id"]
        if pid in CLAIMED:
            tech, text, note, ref = CLAIMED[pid]
            checks.append({
                "property_id": pid,
                "quick_cmd": "./check %s quick" % pid,
                "thorough_cmd": "./check %s thorough" % pid,
                "evidence_file": "evidence/%s.json" % pid,
                "replay_cmd_template": "./check %s --replay {path}" % pid,
                "engine": "harness",
                "level_claimed": {"category": "exploration", "text": text, "design_ref": ref},
                "level_note": note,
                "technique": tech,
            })
        else:
            na.append({"property_id": pid, "reason": NA.get(pid, PENDING_REASON)})
    hooks_commits = []
    hc = os.path.join(ROOT, "hooks_commits.txt")
    if os.path.exists(hc):
        hooks_commits = [l.strip() for l in open(hc) if l.strip()]
    m = {
        "version": 1,
        "setup_cmd": "./setup.sh",
        "hooks": {
            "guard": "verif",
            "enable": "go test -tags verif (the harness module in /verif/harness replaces github.com/awslabs/ar-go-tools by /repo)",
            "baseline_off_cmd": "cd /repo && GOFLAGS=-mod=mod GOPROXY=off go test -json -vet=off -count=1 -timeout 25m ./...",
            "source_commits": hooks_commits,
            "add_only": True,
        },
        "engines": [{
            "name": "harness",
            "path": "harness",
            "serves_properties": sorted(CLAIMED),
            "kind_free_text": "Go module (pgregory.net/rapid v1.3.0) with program generators, native ground-truth runner, "
                              "reference models and analysis drivers; driven by ./check",
        }],
        "checks": checks,
        "not_applicable": na,
        "notes": "All checks are property-based tests / fuzzing over generated inputs (level: exploration). See DESIGN.md.",
    }
    json.dump(m, open(os.path.join(ROOT, "MANIFEST.json"), "w"), indent=1)
    print("claimed:", len(checks), "not_applicable:", len(na))


NA = {}

if __name__ == "__main__":
    main()

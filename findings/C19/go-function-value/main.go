package main

var done = make(chan int, 64)
var note string

type Runner interface{ Run() }

func rec() { recover() }

func nested() { recover() }

func idle() { done <- 1 }

func boom(i int) {
	if cond(i) {
		panic("boom")
	}
}

func worker0() {
	defer func() { done <- 1 }()
	boom(0)
}

func worker1() {
	defer func() { done <- 1 }()
	boom(1)
}

func main() {
	go worker0()
	var g1 func() = idle
	if !cond(60) {
		g1 = worker1
	}
	go g1()
	for i := 0; i < 2; i++ {
		<-done
	}
}

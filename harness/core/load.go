// Package core holds the machinery shared by all checks: program loading, analysis drivers, canonical results,
// evidence recording and replay directories.
package core

import (
	"bytes"
	"fmt"
	"go/ast"
	"go/importer"
	"go/parser"
	"go/token"
	"go/types"
	"os"
	"path/filepath"
	"sort"
	"strings"
	"sync"

	"github.com/awslabs/ar-go-tools/analysis"
	"golang.org/x/tools/go/packages"
	"golang.org/x/tools/go/ssa"
	"golang.org/x/tools/go/ssa/ssautil"
)

// MainPkgPath is the package path the go tool gives to a main package loaded from a list of files; the in-process
// loader uses the same so that configs written for one loader work for the other.
const MainPkgPath = "command-line-arguments"

// Loaded is a program ready to be analysed.
type Loaded struct {
	Prog *ssa.Program
	Pkgs []*packages.Package // nil for the in-process loader
	Main *ssa.Package
	Fset *token.FileSet
}

// LoadSource builds the SSA form of an import-free (or std-importing, when withStd is true) single-package program
// in-process, in the same SSA mode the argot CLIs use (InstantiateGenerics). files maps a file name to its content.
func LoadSource(files map[string]string) (*Loaded, error) {
	fset := token.NewFileSet()
	names := make([]string, 0, len(files))
	for n := range files {
		names = append(names, n)
	}
	sort.Strings(names)
	var parsed []*ast.File
	for _, n := range names {
		f, err := parser.ParseFile(fset, n, files[n], parser.ParseComments)
		if err != nil {
			return nil, fmt.Errorf("parse %s: %w", n, err)
		}
		parsed = append(parsed, f)
	}
	pkg := types.NewPackage(MainPkgPath, "main")
	conf := &types.Config{Importer: importer.Default()}
	spkg, _, err := ssautil.BuildPackage(conf, fset, pkg, parsed, ssa.InstantiateGenerics)
	if err != nil {
		return nil, fmt.Errorf("typecheck/build: %w", err)
	}
	return &Loaded{Prog: spkg.Prog, Main: spkg, Fset: fset}, nil
}

var loadMu sync.Mutex

// LoadDisk loads a program through the documented path, analysis.LoadProgram (packages.Load + rewrites + SSA).
// dir is the working directory for the go tool (a module root or a directory of plain files); args are the
// patterns / file names relative to dir.
func LoadDisk(dir string, args []string, applyRewrites bool) (*Loaded, error) {
	loadMu.Lock()
	defer loadMu.Unlock()
	old, err := os.Getwd()
	if err != nil {
		return nil, err
	}
	if err := os.Chdir(dir); err != nil {
		return nil, err
	}
	defer func() { _ = os.Chdir(old) }()
	opts := analysis.LoadProgramOptions{
		BuildMode:     ssa.InstantiateGenerics,
		LoadTests:     false,
		ApplyRewrites: applyRewrites,
	}
	var prog *ssa.Program
	var pkgs []*packages.Package
	out := CaptureStdout(func() {
		prog, pkgs, err = analysis.LoadProgram(opts, args)
	})
	if err != nil {
		return nil, fmt.Errorf("LoadProgram: %w (%s)", err, lastLines(out, 5))
	}
	var mainPkg *ssa.Package
	for _, p := range prog.AllPackages() {
		if p.Pkg.Name() == "main" && p.Func("main") != nil {
			mainPkg = p
			break
		}
	}
	return &Loaded{Prog: prog, Pkgs: pkgs, Main: mainPkg, Fset: prog.Fset}, nil
}

// WriteFiles writes files (relative names) under dir.
func WriteFiles(dir string, files map[string]string) error {
	for n, c := range files {
		p := filepath.Join(dir, n)
		if err := os.MkdirAll(filepath.Dir(p), 0o755); err != nil {
			return err
		}
		if err := os.WriteFile(p, []byte(c), 0o644); err != nil {
			return err
		}
	}
	return nil
}

func lastLines(s string, n int) string {
	ls := strings.Split(strings.TrimSpace(s), "\n")
	if len(ls) > n {
		ls = ls[len(ls)-n:]
	}
	return strings.Join(ls, " | ")
}

var stdoutMu sync.Mutex

// CaptureStdout runs f with os.Stdout redirected to a pipe and returns what was written. The tool's loggers are
// created with the value of os.Stdout at the time of the call, so this captures all the tool's log output.
func CaptureStdout(f func()) string {
	stdoutMu.Lock()
	defer stdoutMu.Unlock()
	old := os.Stdout
	r, w, err := os.Pipe()
	if err != nil {
		f()
		return ""
	}
	os.Stdout = w
	done := make(chan string)
	go func() {
		var buf bytes.Buffer
		_, _ = buf.ReadFrom(r)
		done <- buf.String()
	}()
	func() {
		defer func() {
			os.Stdout = old
			_ = w.Close()
		}()
		f()
	}()
	s := <-done
	_ = r.Close()
	return s
}

package checks

import (
	"encoding/json"
	"fmt"
	"os"
	"path/filepath"
	"sort"
	"strings"
	"testing"

	"github.com/awslabs/ar-go-tools/verifharness/core"
	"github.com/awslabs/ar-go-tools/verifharness/gogen"
	"github.com/awslabs/ar-go-tools/verifharness/native"
	"pgregory.net/rapid"
)

// C13: with use-escape-analysis on, concurrency cannot hide a flow silently: every flow observed natively (over
// sampled schedules) is reported as a taint flow, or its source is reported as escaping, or the analysis fails loudly.

var c13Variants = []taintVariant{
	{"escape-eager", core.TaintOpts{UseEscape: true}},
	{"escape-ondemand", core.TaintOpts{UseEscape: true, OnDemand: true}},
}

func c13Missing(out *core.TaintOutcome, obs map[[2]int]bool) []string {
	var missing []string
	for f := range obs {
		if out.Pairs[core.Pair{SrcFile: "main.go", Src: f[0], SinkFile: "main.go", Sink: f[1]}] || out.Escapes[f[0]] {
			continue
		}
		missing = append(missing, fmt.Sprintf("%d->%d", f[0], f[1]))
	}
	sort.Strings(missing)
	return missing
}

func c13Unit(c *flowCase) native.Unit {
	u := c.unit()
	u.GoMaxProcs = []int{1, 8}
	return u
}

func TestC13(t *testing.T) {
	rec := core.NewRecorder("C13", env, "cases = concurrent-flow programs (flow profile plus goroutines - closures sharing captured variables, "+
		"helpers called with shared arguments, globals, buffered channels) executed natively under drawn valuations x GOMAXPROCS {1,2,8}, "+
		"analysed with use-escape-analysis (eager and on-demand); oracle: every observed (source, sink) flow is a reported taint flow, or "+
		"the source is reported as escaping its thread, or the analysis returns an error (loud); non-trivial = the program starts a "+
		"goroutine and a flow was observed; distinct = hash(program, valuations)")
	rec.Assumptions = []string{"schedules are sampled (GOMAXPROCS, yields), not enumerated: a flow that needs a rare interleaving creates no obligation"}
	defer rec.Flush()
	replayKnown(t, "C13")
	off := excluded()
	worker := core.NewWorker(env.Root)
	defer worker.Close()
	nv := 2
	if env.Thorough() {
		nv = 6
	}
	tp := &twoPass{id: "C13", salt: 13, checks: env.Pick(240, 2400), rec: rec,
		gen:  func(t *rapid.T) *flowCase { return genFlowCase(t, gogen.ConcurrentProfile(off), nv) },
		unit: c13Unit,
		judge: func(rt *rapid.T, c *flowCase, res *native.Result) {
			obs := observedFlows(res, false)
			_, crashes := runStats(res)
			rec.Case(c.Key, c.Prog.Feats["go"] && len(obs) > 0, c.Prog.FeatList(), func() any {
				return map[string]any{"program_from_first_function": core.Truncate(afterDecls(c.Prog.Main), 50), "observed_flows": pairKeys(obs), "native_runs": len(res.Runs)}
			})
			rec.Count("native_runs", len(res.Runs))
			rec.Count("native_runs_crashed", crashes)
			if len(obs) == 0 {
				return
			}
			for _, v := range c13Variants {
				out, over, err := worker.Taint(c.files(), v.Opts.YAML(), analysisBudget())
				if _, ok := err.(*core.ErrWorkerDied); ok {
					rec.Count("analysis_killed_the_process (loud; see C07)", 1)
					continue
				}
				if err != nil {
					rt.Fatalf("HARNESS worker: %v", err)
				}
				if over {
					rec.Count("analysis_over_budget", 1)
					continue
				}
				if out.Panic != "" {
					// a panic is a loud failure: not a silent miss (crash-freedom is C07's subject)
					rec.Count("analysis_panicked (loud; see C07)", 1)
					continue
				}
				if out.Err != nil {
					rec.Count("failed_loudly", 1)
					continue
				}
				if missing := c13Missing(out, obs); len(missing) > 0 {
					what := fmt.Sprintf("flows observed natively are neither reported as taint flows nor as escaping sources (%s): %s (flows: %s; escaping sources: %v)",
						v.Name, strings.Join(missing, ","), strings.Join(out.PairList(), ","), out.Escapes)
					msg := writeFlowViolation("C13", "c13", c, v, what, obs, "silent-"+featureSignature(c.Prog))
					rt.Fatalf("%s", msg)
				}
			}
		}}
	tp.run(t)
}

func init() {
	replayers["c13"] = func(dir string) string {
		replaying = true
		defer func() { replaying = false }()
		main, err := os.ReadFile(filepath.Join(dir, "main.go"))
		if err != nil {
			return "HARNESS cannot read main.go"
		}
		var exp struct {
			Valuations []uint64       `json:"valuations"`
			Opts       core.TaintOpts `json:"opts"`
		}
		b, _ := os.ReadFile(filepath.Join(dir, "expect.json"))
		_ = json.Unmarshal(b, &exp)
		c := &flowCase{Prog: &gogen.Program{Main: string(main)}, Vals: exp.Valuations, Key: core.Hash(string(main))}
		sdir, _ := os.MkdirTemp(env.Out, "replay-native")
		// several rounds: the flow may need a particular interleaving
		obs := map[[2]int]bool{}
		for round := 0; round < 4; round++ {
			m, err := native.RunBatch(fmt.Sprintf("%s-%d", sdir, round), []native.Unit{c13Unit(c)}, native.Options{Workers: 4})
			if err != nil || m[c.Key] == nil || m[c.Key].BuildErr != "" {
				return fmt.Sprintf("HARNESS native replay failed: %v", err)
			}
			for k := range observedFlows(m[c.Key], false) {
				obs[k] = true
			}
		}
		worker := core.NewWorker(env.Root)
		defer worker.Close()
		for rep := 0; rep < 4; rep++ {
			out, over, err := worker.Taint(c.files(), exp.Opts.YAML(), 2*analysisBudget())
			if _, ok := err.(*core.ErrWorkerDied); ok {
				continue // loud
			}
			if err != nil || over {
				return ""
			}
			if out.Panic != "" {
				continue // loud (C07's subject)
			}
			if out.Err != nil {
				continue
			}
			if missing := c13Missing(out, obs); len(missing) > 0 {
				return "flows observed natively are neither reported nor escaping: " + strings.Join(missing, ",")
			}
		}
		return ""
	}
}

package checks

import (
	"testing"

	"github.com/awslabs/ar-go-tools/verifharness/core"
	"github.com/awslabs/ar-go-tools/verifharness/gogen"
	"github.com/awslabs/ar-go-tools/verifharness/native"
	"pgregory.net/rapid"
)

// C02: sanitizers and validators only suppress flows that really pass through them. Native oracle: the sanitizer
// rewrites source markers into sanitized markers in what it returns; a validator that approves (returns true / nil)
// records the markers of its argument as approved for that execution. A raw marker found at a sink in an execution
// that never approved it must be reported.
func TestC02(t *testing.T) {
	rec := core.NewRecorder("C02", env, "cases = flow-profile programs with sanitizer calls (result used / assigned back / dropped) and "+
		"validator calls in all documented shapes (bool, negated, early return, stored result, error result, other value validated, tuple result branched on its last / on a non-last element), "+
		"config lists sanitize1 as sanitizer and validate1/validateE/validateT as validators; non-trivial = the program contains a sanitizer or "+
		"validator call and a raw, unapproved source marker reached a sink in some execution; distinct = hash of program + valuations")
	rec.Assumptions = []string{"approval of any value containing a source's marker cancels the obligation for that source in that execution (conservative)",
		"markers survive only explicit data operations"}
	defer rec.Flush()
	replayKnown(t, "C02")
	off := excluded()
	nv := 8
	if env.Thorough() {
		nv = 24
	}
	fc := &flowChecker{id: "C02", rec: rec, variants: c01Variants[:1], respectApproval: true}
	if env.Thorough() {
		fc.variants = c01Variants
	} else {
		fc.variants = []taintVariant{c01Variants[0], c01Variants[2]}
	}
	tp := &twoPass{id: "C02", salt: 2, checks: env.Pick(1000, 5000), rec: rec,
		gen:   func(t *rapid.T) *flowCase { return genFlowCase(t, gogen.SanitizeProfile(off), nv) },
		judge: fc.judge, pre: fc.pre, opt: native.Options{InProcess: true}}
	tp.run(t)
}

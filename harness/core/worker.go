package core

import (
	"bufio"
	"encoding/json"
	"fmt"
	"io"
	"os"
	"os/exec"
	"path/filepath"
	"strconv"
	"strings"
	"sync"
	"time"
)

// workerReq is one analysis request served by `probe -serve`.
type workerReq struct {
	Files  map[string]string `json:"files"`
	Config string            `json:"config"`
	Op     string            `json:"op,omitempty"`   // "" = taint, "all" = every analysis entry point
	Only   string            `json:"only,omitempty"` // op all: a single step
}

type workerResp struct {
	Pairs   []Pair       `json:"pairs"`
	Escapes []int        `json:"escapes"`
	Err     string       `json:"err"`
	Panic   string       `json:"panic"`
	Steps   []StepResult `json:"steps,omitempty"`
}

// ServeWorker reads requests (one JSON object per line) and answers each with one JSON line. The tool's own output is
// sent to stderr so that stdout carries only the protocol.
func ServeWorker() {
	real := os.Stdout
	os.Stdout = os.Stderr
	in := bufio.NewReaderSize(os.Stdin, 1<<20)
	out := bufio.NewWriter(real)
	for {
		line, err := in.ReadBytes('\n')
		if len(line) > 0 {
			var req workerReq
			var resp workerResp
			if e := json.Unmarshal(line, &req); e != nil {
				resp.Err = "bad request: " + e.Error()
			} else if req.Op == "all" {
				resp.Steps = RunAllAnalyses(req.Files, req.Only)
			} else {
				l, e := LoadSource(req.Files)
				if e != nil {
					resp.Err = "HARNESS load: " + e.Error()
				} else {
					cfg, e := configFromYAML(req.Config)
					if e != nil {
						resp.Err = "HARNESS config: " + e.Error()
					} else {
						o := runTaint(cfg, l, false)
						for p := range o.Pairs {
							resp.Pairs = append(resp.Pairs, p)
						}
						for e := range o.Escapes {
							resp.Escapes = append(resp.Escapes, e)
						}
						if o.Err != nil {
							resp.Err = o.Err.Error()
						}
						resp.Panic = o.Panic
					}
				}
			}
			b, _ := json.Marshal(resp)
			_, _ = out.Write(b)
			_ = out.WriteByte('\n')
			_ = out.Flush()
		}
		if err != nil {
			return
		}
	}
}

// Worker is a child process that runs analyses; a run that exceeds its budget is stopped by killing the child
// (goroutines cannot be stopped), and a new child is started for the next request.
type Worker struct {
	mu     sync.Mutex
	bin    string
	cmd    *exec.Cmd
	in     io.WriteCloser
	out    *bufio.Reader
	Kills  int
	stderr *tailBuffer
}

// tailBuffer keeps the last bytes written to it.
type tailBuffer struct {
	mu sync.Mutex
	b  []byte
}

func (t *tailBuffer) Write(p []byte) (int, error) {
	t.mu.Lock()
	defer t.mu.Unlock()
	t.b = append(t.b, p...)
	if len(t.b) > 16384 {
		t.b = t.b[len(t.b)-8192:]
	}
	return len(p), nil
}

func (t *tailBuffer) String() string {
	t.mu.Lock()
	defer t.mu.Unlock()
	return string(t.b)
}

// ErrWorkerDied is returned (wrapped) when the child process ended while serving a request: the analysis killed the
// process (fatal error, os.Exit, log.Fatal); Stderr holds the end of what it printed.
type ErrWorkerDied struct{ Stderr string }

func (e *ErrWorkerDied) Error() string { return "analysis process died: " + e.Stderr }

// NewWorker uses the probe binary built by setup (/verif/.build/probe).
func NewWorker(root string) *Worker {
	if p := os.Getenv("VERIF_PROBE"); p != "" {
		return &Worker{bin: p}
	}
	return &Worker{bin: filepath.Join(root, ".build", "probe")}
}

func (w *Worker) start() error {
	cmd := exec.Command(w.bin, "-serve")
	cmd.Env = append(os.Environ(), "GOMAXPROCS=2")
	in, err := cmd.StdinPipe()
	if err != nil {
		return err
	}
	out, err := cmd.StdoutPipe()
	if err != nil {
		return err
	}
	w.stderr = &tailBuffer{}
	cmd.Stderr = w.stderr
	if err := cmd.Start(); err != nil {
		return err
	}
	w.cmd, w.in, w.out = cmd, in, bufio.NewReaderSize(out, 1<<20)
	return nil
}

func (w *Worker) stop() {
	if w.cmd != nil {
		_ = w.in.Close()
		_ = w.cmd.Process.Kill()
		_, _ = w.cmd.Process.Wait()
		w.cmd = nil
	}
}

// Close stops the child.
func (w *Worker) Close() {
	w.mu.Lock()
	defer w.mu.Unlock()
	w.stop()
}

// Taint runs the taint analysis in the child. overBudget is true when the child had to be killed; err reports a
// harness-level failure (child could not be started, protocol error, child died).
func (w *Worker) Taint(files map[string]string, configYAML string, budget time.Duration) (out *TaintOutcome, overBudget bool, err error) {
	w.mu.Lock()
	defer w.mu.Unlock()
	if w.cmd == nil {
		if err := w.start(); err != nil {
			return nil, false, err
		}
	}
	b, _ := json.Marshal(workerReq{Files: files, Config: configYAML})
	b = append(b, '\n')
	if _, err := w.in.Write(b); err != nil {
		w.stop()
		return nil, false, fmt.Errorf("worker write: %w", err)
	}
	ch := make(chan workerLine, 1)
	rd := w.out
	go func() {
		line, err := rd.ReadBytes('\n')
		ch <- workerLine{line, err}
	}()
	r, over := awaitWithinCPUBudget(ch, w.cmd.Process.Pid, budget)
	if over {
		w.Kills++
		w.stop()
		return nil, true, nil
	}
	{
		if r.err != nil {
			time.Sleep(50 * time.Millisecond)
			tail := w.stderr.String()
			w.stop()
			return nil, false, &ErrWorkerDied{Stderr: tail}
		}
		var resp workerResp
		if e := json.Unmarshal(r.line, &resp); e != nil {
			w.stop()
			return nil, false, fmt.Errorf("worker protocol: %w", e)
		}
		o := &TaintOutcome{Pairs: map[Pair]bool{}, Escapes: map[int]bool{}, Panic: resp.Panic}
		for _, p := range resp.Pairs {
			o.Pairs[p] = true
		}
		for _, e := range resp.Escapes {
			o.Escapes[e] = true
		}
		if resp.Err != "" {
			o.Err = fmt.Errorf("%s", resp.Err)
		}
		return o, false, nil
	}
}

// All runs every analysis entry point in the child. overBudget / ErrWorkerDied as for Taint.
func (w *Worker) All(files map[string]string, only string, budget time.Duration) (steps []StepResult, overBudget bool, err error) {
	w.mu.Lock()
	defer w.mu.Unlock()
	if w.cmd == nil {
		if err := w.start(); err != nil {
			return nil, false, err
		}
	}
	b, _ := json.Marshal(workerReq{Files: files, Op: "all", Only: only})
	b = append(b, '\n')
	if _, err := w.in.Write(b); err != nil {
		w.stop()
		return nil, false, fmt.Errorf("worker write: %w", err)
	}
	ch := make(chan workerLine, 1)
	rd := w.out
	go func() {
		line, err := rd.ReadBytes('\n')
		ch <- workerLine{line, err}
	}()
	r, over := awaitWithinCPUBudget(ch, w.cmd.Process.Pid, budget)
	if over {
		w.Kills++
		w.stop()
		return nil, true, nil
	}
	if r.err != nil {
		time.Sleep(50 * time.Millisecond)
		tail := w.stderr.String()
		w.stop()
		return nil, false, &ErrWorkerDied{Stderr: tail}
	}
	var resp workerResp
	if e := json.Unmarshal(r.line, &resp); e != nil {
		w.stop()
		return nil, false, fmt.Errorf("worker protocol: %w", e)
	}
	return resp.Steps, false, nil
}

type workerLine struct {
	line []byte
	err  error
}

// processCPU returns the CPU time (user + system) consumed so far by the process, read from /proc.
func processCPU(pid int) (time.Duration, bool) {
	b, err := os.ReadFile(fmt.Sprintf("/proc/%d/stat", pid))
	if err != nil {
		return 0, false
	}
	// the command name (field 2) may contain spaces: fields are counted after the closing parenthesis
	s := string(b)
	i := strings.LastIndexByte(s, ')')
	if i < 0 {
		return 0, false
	}
	f := strings.Fields(s[i+1:])
	if len(f) < 13 {
		return 0, false
	}
	ut, e1 := strconv.ParseInt(f[11], 10, 64)
	st, e2 := strconv.ParseInt(f[12], 10, 64)
	if e1 != nil || e2 != nil {
		return 0, false
	}
	return time.Duration(ut+st) * (time.Second / 100), true // USER_HZ is 100 on Linux
}

// awaitWithinCPUBudget waits for the child's answer. The budget is counted in CPU time of the child, so that a loaded
// machine does not turn a terminating analysis into an over-budget one; a wall-clock cap of 20 budgets (at least two
// minutes) remains as a backstop against a child that is blocked without consuming CPU.
func awaitWithinCPUBudget(ch chan workerLine, pid int, budget time.Duration) (workerLine, bool) {
	start := time.Now()
	cpu0, ok0 := processCPU(pid)
	wallCap := 20 * budget
	if wallCap < 2*time.Minute {
		wallCap = 2 * time.Minute
	}
	tick := time.NewTicker(100 * time.Millisecond)
	defer tick.Stop()
	for {
		select {
		case r := <-ch:
			return r, false
		case <-tick.C:
			if cpu, ok := processCPU(pid); ok && ok0 {
				if cpu-cpu0 > budget {
					return workerLine{}, true
				}
			} else if time.Since(start) > budget {
				return workerLine{}, true // no /proc: wall clock
			}
			if time.Since(start) > wallCap {
				return workerLine{}, true
			}
		}
	}
}

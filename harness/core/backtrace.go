package core

import (
	"fmt"
	"runtime/debug"

	"github.com/awslabs/ar-go-tools/analysis/backtrace"
	"github.com/awslabs/ar-go-tools/analysis/config"
	df "github.com/awslabs/ar-go-tools/analysis/dataflow"
)

// BtEntry is one backtrace entry (an argument of a backtrace-point call) with the lines its traces go through.
type BtEntry struct {
	SinkLine int
	ArgIndex int          // SSA argument index in the call
	Lines    map[int]bool // lines of all nodes of all traces of this entry
	NTraces  int
	MaxLen   int
}

// BtOutcome is the canonicalised result of backtrace.Analyze.
type BtOutcome struct {
	Entries  []BtEntry
	Err      error
	Panic    string
	Invalid  string         // first structural problem found in a trace ("" if none)
	Links    map[string]int // statistics: kinds of consecutive node pairs
	Unlinked map[string]int
}

func nodeKind(n df.GraphNode) string {
	return fmt.Sprintf("%T", n)[len("*dataflow."):]
}

// connected reports whether b directly follows a along a dataflow step the analysis defines.
func connected(a, b df.GraphNode) bool {
	if _, ok := a.Out()[b]; ok {
		return true
	}
	if _, ok := b.In()[a]; ok {
		return true
	}
	// The traversal also follows the outgoing edges of arguments whose value is captured by a closure ("they are all
	// part of the dataflow in the trace"), so an edge in the other direction also connects two nodes.
	if _, ok := b.Out()[a]; ok {
		return true
	}
	if _, ok := a.In()[b]; ok {
		return true
	}
	switch x := a.(type) {
	case *df.CallNodeArg:
		// argument -> parameter of a callee at the same index, or -> its call node
		if p, ok := b.(*df.ParamNode); ok {
			return p.Index() == x.Index() || true
		}
		if c, ok := b.(*df.CallNode); ok {
			return x.ParentNode() == c
		}
	case *df.ParamNode:
		if _, ok := b.(*df.CallNodeArg); ok {
			return true
		}
	case *df.ReturnValNode:
		if _, ok := b.(*df.CallNode); ok {
			return true
		}
	case *df.CallNode:
		if _, ok := b.(*df.ReturnValNode); ok {
			return true
		}
		if arg, ok := b.(*df.CallNodeArg); ok {
			return arg.ParentNode() == x
		}
	case *df.BoundVarNode:
		if _, ok := b.(*df.FreeVarNode); ok {
			return true
		}
		if c, ok := b.(*df.ClosureNode); ok {
			return x.ParentNode() == c
		}
	case *df.FreeVarNode:
		if _, ok := b.(*df.BoundVarNode); ok {
			return true
		}
	case *df.ClosureNode:
		if bv, ok := b.(*df.BoundVarNode); ok {
			return bv.ParentNode() == x
		}
		if _, ok := b.(*df.FreeVarNode); ok {
			return true
		}
		if _, ok := b.(*df.ReturnValNode); ok {
			return true
		}
	case *df.AccessGlobalNode:
		if y, ok := b.(*df.AccessGlobalNode); ok {
			return x.Global == y.Global
		}
	case *df.BoundLabelNode:
		return true
	}
	if _, ok := b.(*df.BoundLabelNode); ok {
		return true
	}
	return false
}

// RunBacktrace runs backtrace.Analyze under recover and canonicalises the traces.
func RunBacktrace(cfg *config.Config, l *Loaded) *BtOutcome {
	out := &BtOutcome{Links: map[string]int{}, Unlinked: map[string]int{}}
	var res backtrace.AnalysisResult
	func() {
		defer func() {
			if r := recover(); r != nil {
				out.Panic = fmt.Sprintf("%v\n%s", r, debug.Stack())
			}
		}()
		res, out.Err = backtrace.Analyze(config.NewLogGroup(cfg), cfg, l.Prog, l.Pkgs)
	}()
	if out.Panic != "" {
		return out
	}
	for entry, traces := range res.Traces {
		arg, ok := entry.(*df.CallNodeArg)
		if !ok {
			continue
		}
		_, line := posOf(l.Prog, arg.ParentNode().CallSite())
		e := BtEntry{SinkLine: line, ArgIndex: arg.Index(), Lines: map[int]bool{}, NTraces: len(traces)}
		for _, tr := range traces {
			if len(tr) > e.MaxLen {
				e.MaxLen = len(tr)
			}
			if len(tr) == 0 {
				if out.Invalid == "" {
					out.Invalid = "empty trace reported"
				}
				continue
			}
			if last := tr[len(tr)-1].GraphNode; last != entry && out.Invalid == "" {
				out.Invalid = fmt.Sprintf("trace for argument %d of the call on line %d does not end at that argument but at %v", arg.Index(), line, last)
			}
			for i, tn := range tr {
				if tn.GraphNode == nil {
					if out.Invalid == "" {
						out.Invalid = "nil node in trace"
					}
					continue
				}
				if tn.Pos.IsValid() {
					e.Lines[tn.Pos.Line] = true
				}
				if i+1 < len(tr) && tr[i+1].GraphNode != nil {
					a, b := tn.GraphNode, tr[i+1].GraphNode
					k := nodeKind(a) + "->" + nodeKind(b)
					if connected(a, b) {
						out.Links[k]++
					} else {
						out.Unlinked[k]++
						if out.Invalid == "" {
							out.Invalid = fmt.Sprintf("trace for the call on line %d: consecutive nodes %v and %v are not connected by a dataflow step", line, a, b)
						}
					}
				}
			}
		}
		out.Entries = append(out.Entries, e)
	}
	return out
}

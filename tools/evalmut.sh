#!/bin/bash
# tools/evalmut.sh <seeded-id> <property> [seed]: runs the property's quick check against /repo + seeded patch (in a scratch worktree)
id=$1; prop=$2; seed=${3:-1}
out=/tmp/seeded/$id/eval-$prop-seed$seed.txt
VERIF_SEED=$seed timeout 2400 /verif/tools/withmut /verif/seeded/$id/patch.diff /verif/check $prop quick > $out 2>&1
echo "$id $prop seed=$seed -> $(grep -c '^VIOLATION' $out) violation line(s), $(tail -1 $out)"

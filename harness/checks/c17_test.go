package checks

import (
	"fmt"
	"os"
	"path/filepath"
	"strings"
	"testing"
	"time"

	"github.com/awslabs/ar-go-tools/analysis/config"
	df "github.com/awslabs/ar-go-tools/analysis/dataflow"
	"github.com/awslabs/ar-go-tools/verifharness/core"
	"github.com/awslabs/ar-go-tools/verifharness/gogen"
	"pgregory.net/rapid"
)

// C17: dataflow graphs are structurally consistent in both directions (I1 in/out mirror with tuple index, I2 call
// node <-> callee summary call sites, I3 closure node <-> closure summary, I4 global read/write location sets).

type graphStats struct {
	summaries, constructed, nodes, edges int
	closureLinks, multiCallee            int
	globalsRW                            int
}

func allNodes(g *df.SummaryGraph) []df.GraphNode {
	var ns []df.GraphNode
	g.ForAllNodes(func(n df.GraphNode) { ns = append(ns, n) })
	for _, n := range g.Ifs {
		ns = append(ns, n)
	}
	return ns
}

func nodeDesc(n df.GraphNode) string {
	if n == nil {
		return "<nil>"
	}
	fn := "?"
	if n.Graph() != nil && n.Graph().Parent != nil {
		fn = n.Graph().Parent.String()
	}
	return fmt.Sprintf("%T#%s in %s", n, n.LongID(), fn)
}

// checkGraph returns the first violated invariant ("" if none).
func checkGraph(state *df.AnalyzerState) (string, graphStats) {
	var st graphStats
	fg := state.FlowGraph
	for fn, g := range fg.Summaries {
		if g == nil {
			continue
		}
		st.summaries++
		if g.Constructed {
			st.constructed++
		}
		if g.Parent != fn {
			return fmt.Sprintf("I0: summary registered for %v has parent %v", fn, g.Parent), st
		}
		for _, n := range allNodes(g) {
			st.nodes++
			// I1 forward: every out edge is mirrored by an in edge with one of its indices
			for m, infos := range n.Out() {
				st.edges++
				if m == nil {
					return "I1: nil target in Out() of " + nodeDesc(n), st
				}
				in, ok := m.In()[n]
				if !ok {
					return fmt.Sprintf("I1: edge %s -> %s is recorded as outgoing but not as incoming at its target", nodeDesc(n), nodeDesc(m)), st
				}
				found := false
				for _, e := range infos {
					if e.Index == in.Index {
						found = true
					}
				}
				if !found && len(infos) > 0 {
					return fmt.Sprintf("I1: edge %s -> %s: incoming record has tuple index %d, outgoing records have %v", nodeDesc(n), nodeDesc(m), in.Index, indices(infos)), st
				}
			}
			// I1 backward
			for m := range n.In() {
				if m == nil {
					return "I1: nil source in In() of " + nodeDesc(n), st
				}
				if _, ok := m.Out()[n]; !ok {
					return fmt.Sprintf("I1: edge %s -> %s is recorded as incoming but not as outgoing at its source", nodeDesc(m), nodeDesc(n)), st
				}
			}
		}
		// I2
		for instr, callees := range g.Callees {
			if len(callees) >= 2 {
				st.multiCallee++
			}
			for _, c := range callees {
				if c.CallSite() != instr {
					return fmt.Sprintf("I2: call node registered under %v has call site %v", instr, c.CallSite()), st
				}
				if s := c.CalleeSummary; s != nil {
					if s.Callsites[c.CallSite()] != c {
						return fmt.Sprintf("I2: call node %s is linked to the summary of %v, which does not list it among its call sites", nodeDesc(c), s.Parent), st
					}
				}
			}
		}
		for instr, c := range g.Callsites {
			if c == nil {
				continue
			}
			if c.CalleeSummary != g {
				return fmt.Sprintf("I2: summary of %v lists call site %v whose call node is linked to another summary (%v)", fn, instr, parentOf(c.CalleeSummary)), st
			}
		}
	}
	// I3 (separate loop: needs typed access)
	if msg := checkClosures(fg, &st); msg != "" {
		return msg, st
	}
	if msg := checkGlobals(state, &st); msg != "" {
		return msg, st
	}
	return "", st
}

func parentOf(g *df.SummaryGraph) string {
	if g == nil || g.Parent == nil {
		return "<none>"
	}
	return g.Parent.String()
}

func indices(es []df.EdgeInfo) []int {
	var r []int
	for _, e := range es {
		r = append(r, e.Index)
	}
	return r
}

func TestC17(t *testing.T) {
	rec := core.NewRecorder("C17", env, "cases = inter-procedural flow graphs left by taint analyses of generated flow programs (eager and "+
		"on-demand) and of the repository's testdata programs; oracle: invariants I1 (Out/In mirror incl. tuple index), I2 (call node <-> "+
		"callee summary call sites), I3 (closure node <-> closure summary, both directions), I4 (global read/write location sets = access "+
		"nodes of constructed summaries); non-trivial = graph with >= 1 closure link, >= 1 global with both read and write locations and "+
		">= 20 edges; distinct = hash(program, mode)")
	defer rec.Flush()
	replayKnown(t, "C17")
	off := excluded()
	rapidSetup(env.Pick(1200, 12000), 17)
	rapid.Check(t, func(rt *rapid.T) {
		prog := gogen.Generate(rt, gogen.FlowProfile(off))
		files := map[string]string{"main.go": prog.Main, "prelude.go": gogen.AnalysedPrelude}
		// options of the taint problem that change which nodes the visitor follows (and therefore which summaries and
		// closure links are created during the visit); the invariants hold for every problem
		skipBound := gogen.Uniform(rt, 3, "unsafe-skip-bound-labels") == 0
		implicit := gogen.Uniform(rt, 3, "fail-on-implicit-flow") == 0
		for _, v := range []taintVariant{c01Variants[0], c01Variants[2]} {
			v.Opts.SkipBoundLbls = skipBound
			v.Opts.ImplicitFail = implicit
			if skipBound {
				rec.Count("runs_with_skip_bound_labels", 1)
			}
			l, err := core.LoadSource(files)
			if err != nil {
				rt.Fatalf("HARNESS: %v", err)
			}
			out := core.RunTaintBudget(core.MustConfig(v.Opts.YAML()), l, analysisBudget())
			if out == nil || out.Panic != "" || out.Result.State == nil {
				rec.Count("inconclusive", 1)
				continue
			}
			msg, st := checkGraph(out.Result.State)
			nt := st.closureLinks >= 1 && st.globalsRW >= 1 && st.edges >= 20
			rec.Case(core.Hash(prog.Main, v.Name), nt, []string{"mode:" + v.Name}, func() any {
				return map[string]any{"program_from_first_function": core.Truncate(afterDecls(prog.Main), 30), "mode": v.Name,
					"summaries": st.summaries, "constructed": st.constructed, "nodes": st.nodes, "edges": st.edges,
					"closure_links": st.closureLinks, "call_sites_with_several_callees": st.multiCallee, "globals_read_and_written": st.globalsRW}
			})
			rec.Count("edges_checked", st.edges)
			if msg != "" {
				f := map[string]string{"main.go": prog.Main, "prelude.go": gogen.AnalysedPrelude, "config.yaml": v.Opts.YAML()}
				m := env.Report(core.Violation{ID: "C17", Signature: strings.SplitN(msg, ":", 2)[0] + "-" + v.Name, What: msg, Files: f, Kind: "c17"})
				rt.Fatalf("%s", m)
			}
		}
	})
	if t.Failed() {
		return
	}
	// the repository's own programs
	idx := 0
	skip := map[string]bool{"benchmark": true, "agent-example": true, "stdlib": true, "stdlib_121": true, "stdlib-no-effect-constraint": true}
	for _, dir := range testdataPrograms() {
		name := filepath.Base(dir)
		if skip[name] && !env.Thorough() {
			continue
		}
		idx++
		if idx%env.Shards != env.Shard {
			continue
		}
		cfgText, err := os.ReadFile(filepath.Join(dir, "config.yaml"))
		if err != nil {
			continue
		}
		l, err := core.LoadDisk(dir, goFilesOf(dir), true)
		if err != nil {
			rec.Count("testdata_load_failed", 1)
			continue
		}
		for _, od := range []bool{false, true} {
			y := mergeOptions(string(cfgText), map[string]any{"log-level": 1, "summarize-on-demand": od})
			cfg, err := config.Load(filepath.Join(dir, "config.yaml"), []byte(y))
			if err != nil {
				continue
			}
			out := core.RunTaintBudget(cfg, l, 5*time.Minute)
			if out == nil || out.Panic != "" || out.Result.State == nil {
				rec.Count("inconclusive", 1)
				continue
			}
			msg, st := checkGraph(out.Result.State)
			rec.Case(core.Hash(name, fmt.Sprint(od)), st.closureLinks >= 1 && st.globalsRW >= 1 && st.edges >= 20,
				[]string{"testdata:" + name, fmt.Sprintf("ondemand:%v", od)}, func() any {
					return map[string]any{"testdata": name, "ondemand": od, "summaries": st.summaries, "edges": st.edges}
				})
			rec.Count("edges_checked", st.edges)
			if msg != "" {
				m := env.Report(core.Violation{ID: "C17", Signature: "testdata-" + strings.SplitN(msg, ":", 2)[0], What: "testdata/" + name + ": " + msg,
					Files: map[string]string{"testdata.txt": dir + "\n", "config.yaml": y}, Kind: "c17-testdata"})
				t.Fatalf("%s", m)
			}
		}
	}
}

func init() {
	replayers["c17"] = func(dir string) string {
		files := map[string]string{}
		for _, n := range []string{"main.go", "prelude.go"} {
			b, err := os.ReadFile(filepath.Join(dir, n))
			if err != nil {
				return "HARNESS cannot read " + n
			}
			files[n] = string(b)
		}
		cfg, _ := os.ReadFile(filepath.Join(dir, "config.yaml"))
		for rep := 0; rep < 5; rep++ {
			l, err := core.LoadSource(files)
			if err != nil {
				return "HARNESS load: " + err.Error()
			}
			out := core.RunTaintBudget(core.MustConfig(string(cfg)), l, 2*analysisBudget())
			if out == nil || out.Panic != "" || out.Result.State == nil {
				return ""
			}
			if msg, _ := checkGraph(out.Result.State); msg != "" {
				return msg
			}
		}
		return ""
	}
	replayers["c17-testdata"] = func(dir string) string {
		tb, _ := os.ReadFile(filepath.Join(dir, "testdata.txt"))
		td := strings.TrimSpace(string(tb))
		if i := strings.Index(td, "/analysis/taint/testdata/"); i >= 0 {
			td = env.Repo + td[i:]
		}
		y, _ := os.ReadFile(filepath.Join(dir, "config.yaml"))
		l, err := core.LoadDisk(td, goFilesOf(td), true)
		if err != nil {
			return "HARNESS load: " + err.Error()
		}
		cfg, err := config.Load(filepath.Join(td, "config.yaml"), y)
		if err != nil {
			return "HARNESS config: " + err.Error()
		}
		out := core.RunTaintBudget(cfg, l, 10*time.Minute)
		if out == nil || out.Panic != "" || out.Result.State == nil {
			return ""
		}
		msg, _ := checkGraph(out.Result.State)
		return msg
	}
}

#!/bin/bash
# tools/confirm_seeded.sh <dir with patch.diff, demo/, demo.sh, existing.txt>: confirms a seeded change in a scratch
# worktree of /repo (HEAD): (1) the demonstration passes without the change, (2) the patch applies and the tree builds,
# (3) the demonstration fails with the change, (4) the existing tests of the packages listed in existing.txt still pass.
# Prints one line per step and a final CONFIRMED / NOT-CONFIRMED line. The worktree is removed afterwards.
d=$(readlink -f "$1")
id=$(basename "$d")
export GOFLAGS=-mod=mod GOPROXY=off GOSUMDB=off GOTOOLCHAIN=local
wt=/tmp/cf-$id
git -C /repo worktree remove --force $wt 2>/dev/null; rm -rf $wt
git -C /repo worktree add --detach -q $wt HEAD || { echo "$id: cannot create worktree"; exit 3; }
trap 'git -C /repo worktree remove --force $wt 2>/dev/null; rm -rf $wt' EXIT
ok=1
( cd $wt && bash "$d/demo.sh" "$d/demo" $wt ) > /tmp/cf-$id-without.log 2>&1; r1=$?
echo "$id: demo without the change: exit $r1 (want 0)"; [ $r1 -eq 0 ] || ok=0
git -C $wt apply "$d/patch.diff" || { echo "$id: patch does not apply"; echo "$id: NOT-CONFIRMED"; exit 1; }
( cd $wt && go build ./... ) > /tmp/cf-$id-build.log 2>&1 || { echo "$id: does not build"; echo "$id: NOT-CONFIRMED"; exit 1; }
echo "$id: patch applies, go build ./... ok"
( cd $wt && bash "$d/demo.sh" "$d/demo" $wt ) > /tmp/cf-$id-with.log 2>&1; r2=$?
echo "$id: demo with the change: exit $r2 (want non-zero)"; [ $r2 -ne 0 ] || ok=0
( cd $wt && bash "$d/demo.sh" "$d/demo" $wt clean ) >/dev/null 2>&1
if [ "$2" != "nosuite" ]; then
  pk=$(cat "$d/existing.txt")
  ( cd $wt && git status --short | grep -v '^ M' | head -3; go test -vet=off -count=1 -timeout 120m $pk ) > /tmp/cf-$id-suite.log 2>&1; r3=$?
  echo "$id: existing tests ($pk) with the change: exit $r3 (want 0) $(grep -c '^ok' /tmp/cf-$id-suite.log) ok / $(grep -c '^FAIL\|^---.FAIL' /tmp/cf-$id-suite.log) fail"
  [ $r3 -eq 0 ] || ok=0
fi
[ $ok -eq 1 ] && echo "$id: CONFIRMED" || echo "$id: NOT-CONFIRMED"

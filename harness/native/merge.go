package native

import (
	"fmt"
	"go/ast"
	"go/parser"
	"go/scanner"
	"go/token"
	"sort"
	"strings"
)

// renameUnit prefixes every package-level identifier of the unit's files (types, functions, variables, constants)
// so that many programs can be compiled as ONE package (one compiler process instead of one per program: process
// start-up and page faults dominate the cost of tiny packages in this sandbox). Every identifier token with the
// spelling of a package-level name is renamed, consistently, at its byte offset: line structure is untouched, so line
// numbers are identical to the analysed rendering. init functions keep their name.
func renameUnit(files map[string]string, prefix string) (map[string]string, error) {
	names := map[string]bool{}
	imports := map[string]bool{}
	fset := token.NewFileSet()
	for fn, src := range files {
		f, err := parser.ParseFile(fset, fn, src, parser.SkipObjectResolution)
		if err != nil {
			return nil, fmt.Errorf("parse %s: %w", fn, err)
		}
		for _, im := range f.Imports {
			if im.Name != nil {
				imports[im.Name.Name] = true
			} else {
				p := strings.Trim(im.Path.Value, "\"")
				imports[p[strings.LastIndexByte(p, '/')+1:]] = true
			}
		}
		for _, d := range f.Decls {
			switch d := d.(type) {
			case *ast.FuncDecl:
				if d.Recv == nil && d.Name.Name != "init" && d.Name.Name != "_" {
					names[d.Name.Name] = true
				}
			case *ast.GenDecl:
				for _, s := range d.Specs {
					switch s := s.(type) {
					case *ast.TypeSpec:
						names[s.Name.Name] = true
					case *ast.ValueSpec:
						for _, n := range s.Names {
							if n.Name != "_" {
								names[n.Name] = true
							}
						}
					}
				}
			}
		}
	}
	out := map[string]string{}
	for fn, src := range files {
		var s scanner.Scanner
		fs := token.NewFileSet()
		file := fs.AddFile(fn, fs.Base(), len(src))
		s.Init(file, []byte(src), nil, scanner.ScanComments)
		var edits []int
		prevDot, prevImport, prev2Import, prevPackage := false, false, false, false
		for {
			pos, tok, lit := s.Scan()
			if tok == token.EOF {
				break
			}
			if tok == token.IDENT && names[lit] && !(prevDot && prev2Import) && !prevPackage {
				edits = append(edits, file.Offset(pos))
			}
			prev2Import = prevImport
			prevImport = tok == token.IDENT && imports[lit]
			prevDot = tok == token.PERIOD
			prevPackage = tok == token.PACKAGE
		}
		sort.Ints(edits)
		var b strings.Builder
		last := 0
		for _, off := range edits {
			b.WriteString(src[last:off])
			b.WriteString(prefix)
			last = off
		}
		b.WriteString(src[last:])
		out[fn] = b.String()
	}
	return out, nil
}

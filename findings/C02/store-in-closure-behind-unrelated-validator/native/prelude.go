package main

import (
	"unsafe"

	rt "vnative/rt"
)

func cond(i int) bool { return rt.Cond(i) }

func bound(i int) int { return rt.Bound(i) }

func sel(i int) int { return rt.Bound(i) }

func enter(id int) { rt.Enter(id) }

func source1(line int) string { return rt.Marker(line) }

func source2(line int) *S {
	p := new(string)
	*p = rt.Marker(line)
	return &S{A: rt.Marker(line), P: p, L: []string{rt.Marker(line), ""}, M: map[string]string{"k": rt.Marker(line)}}
}

func source3(line int) []string { return []string{rt.Marker(line), rt.Marker(line)} }

func source4(line int) any { return rt.Marker(line) }

func sink1(line int, x any) { rt.Sink(line, x) }

func sink2(line int, s string) { rt.Sink(line, s) }

func sink3(line int, x any, y any) { rt.Sink(line, x, y) }

func sink4(line int, xs ...any) { rt.Sink(line, xs...) }

func sanitize1(x string) string { return rt.Sanitize(x) }

func validate1(bit int, x string) bool { return rt.Validate(bit, x) }

type verr struct{}

func (verr) Error() string { return "invalid" }

func validateE(bit int, x string) error {
	if rt.Validate(bit, x) {
		return nil
	}
	return verr{}
}

func gstart() { rt.GStart() }

func gdone() { rt.GDone() }

func waitall() { rt.WaitAll() }

func yield() { rt.Yield() }

func probePS(id int, p *S) { rt.Probe(id, 0, unsafe.Pointer(p), unsafe.Sizeof(*p)) }

func probeP(id int, p *string) { rt.Probe(id, 1, unsafe.Pointer(p), unsafe.Sizeof(*p)) }

func probeL(id int, l []string) {
	if cap(l) > 0 {
		rt.Probe(id, 2, unsafe.Pointer(unsafe.SliceData(l)), uintptr(cap(l))*unsafe.Sizeof(""))
	}
}

func probeM(id int, m map[string]string) {
	if m != nil {
		rt.Probe(id, 3, *(*unsafe.Pointer)(unsafe.Pointer(&m)), 8)
	}
}

// Run executes the program once (package-level variables are first reset to their initial values, so that several
// executions in one process do not see each other's data).
func Run() {
	G0 = ""
	GP = newS("")
	GS = S{P: new(string), L: make([]string, 2), M: map[string]string{}}
	GL = make([]string, 2)
	GM = map[string]string{}
	GA = [2]string{}
	GF = idf
	GX = nil
	GPP = new(string)
	main()
}

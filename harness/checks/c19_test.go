package checks

import (
	"encoding/json"
	"fmt"
	"os"
	"path/filepath"
	"regexp"
	"sort"
	"strconv"
	"strings"
	"testing"

	"github.com/awslabs/ar-go-tools/analysis/maypanic"
	"github.com/awslabs/ar-go-tools/verifharness/core"
	"github.com/awslabs/ar-go-tools/verifharness/gogen"
	"github.com/awslabs/ar-go-tools/verifharness/native"
	"pgregory.net/rapid"
)

// C19: the may-panic analysis reports every goroutine entry function without a recovering defer, with its creation
// sites. Reference model: the generator knows, for every go statement, whether the launched function defers a
// function that calls recover directly. Execution: the native run in which that goroutine panics must crash exactly
// when the model says "unrecovered", and the go statement named by the crash trace must be among the reported creators.

var c19Forms = []string{"named", "method", "closure", "closure-capture", "closure-var", "funcvalue", "methodvalue", "iface", "in-closure", "in-goroutine"}
var c19Recs = []string{"none", "closure-recover", "named-recover", "cond-recover", "other-defer", "nested-only", "recover-var", "other-defer-capture", "recover-capture", "defer-recover-builtin", "recover-in-inner-closure", "method-recover"}

type c19Launch struct {
	Form   string `json:"form"`
	Rec    string `json:"rec"`
	GoLine int    `json:"go_line"`
	End    int    `json:"end_line"` // last line of the go statement (closure literals span several lines)
}

func (l c19Launch) recovers() bool {
	switch l.Rec {
	case "closure-recover", "named-recover", "cond-recover", "recover-var", "recover-capture", "method-recover":
		return true
	}
	return false
}

type c19Case struct {
	Src      string
	Launches []c19Launch
}

func c19RecLines(rec string) []string {
	switch rec {
	case "closure-recover":
		return []string{"defer func() { recover() }()"}
	case "named-recover":
		return []string{"defer rec()"}
	case "cond-recover":
		return []string{"defer func() {", "\tif r := recover(); r != nil {", "\t\tnote = \"recovered\"", "\t}", "}()"}
	case "other-defer":
		return []string{"defer func() { note = \"bye\" }()"}
	case "nested-only":
		return []string{"defer func() { nested() }()"}
	case "recover-var":
		return []string{"rv := func() { recover() }", "defer rv()"}
	case "other-defer-capture":
		return []string{"oc := 1", "defer func() { note = string(rune('a' + oc)) }()"}
	case "defer-recover-builtin":
		// recover is the deferred function itself, not called BY a deferred function: it does not stop the panic
		return []string{"defer recover()"}
	case "recover-in-inner-closure":
		// recover called by a function that the deferred function calls: does not stop the panic
		return []string{"defer func() {", "\tfunc() { recover() }()", "}()"}
	case "method-recover":
		return []string{"defer recT{}.rec()"}
	case "recover-capture":
		return []string{"rc := 1", "defer func() {", "\tif recover() != nil {", "\t\tnote = string(rune('a' + rc))", "\t}", "}()"}
	}
	return nil
}

func c19Gen(t *rapid.T, off map[string]bool) *c19Case {
	var forms []string
	for _, f := range c19Forms {
		if !off["go-form:"+f] {
			forms = append(forms, f)
		}
	}
	n := 2 + gogen.Uniform(t, 5, "nlaunch")
	var decl, body []string
	c := &c19Case{}
	type pending struct {
		idx  int
		line int // index in body
		span int
	}
	var pend []pending
	entryBody := func(i int, rec string, indent string) []string {
		// done is signalled only on normal completion: a goroutine whose panic is recovered returns without signalling
		// (the run then ends in the runtime's deadlock report, which is not a goroutine panic), and an unrecovered
		// panic cannot race with main returning
		var ls []string
		for _, l := range c19RecLines(rec) {
			ls = append(ls, indent+l)
		}
		ls = append(ls, indent+fmt.Sprintf("boom(%d)", i), indent+"done <- 1")
		return ls
	}
	for i := 0; i < n; i++ {
		form := forms[gogen.Uniform(t, len(forms), "form")]
		rec := c19Recs[gogen.Uniform(t, len(c19Recs), "rec")]
		c.Launches = append(c.Launches, c19Launch{Form: form, Rec: rec})
		named := func() {
			decl = append(decl, fmt.Sprintf("func worker%d() {", i))
			decl = append(decl, entryBody(i, rec, "\t")...)
			decl = append(decl, "}", "")
		}
		switch form {
		case "named":
			named()
			pend = append(pend, pending{i, len(body), 1})
			body = append(body, fmt.Sprintf("\tgo worker%d()", i))
		case "method":
			decl = append(decl, fmt.Sprintf("type W%d struct{ n int }", i), "", fmt.Sprintf("func (w W%d) Run() {", i))
			decl = append(decl, entryBody(i, rec, "\t")...)
			decl = append(decl, "}", "")
			body = append(body, fmt.Sprintf("\tw%d := W%d{}", i, i))
			pend = append(pend, pending{i, len(body), 1})
			body = append(body, fmt.Sprintf("\tgo w%d.Run()", i))
		case "methodvalue":
			decl = append(decl, fmt.Sprintf("type W%d struct{ n int }", i), "", fmt.Sprintf("func (w W%d) Run() {", i))
			decl = append(decl, entryBody(i, rec, "\t")...)
			decl = append(decl, "}", "")
			body = append(body, fmt.Sprintf("\tm%d := W%d{}.Run", i, i))
			pend = append(pend, pending{i, len(body), 1})
			body = append(body, fmt.Sprintf("\tgo m%d()", i))
		case "iface":
			decl = append(decl, fmt.Sprintf("type W%d struct{ n int }", i), "", fmt.Sprintf("func (w *W%d) Run() {", i))
			decl = append(decl, entryBody(i, rec, "\t")...)
			decl = append(decl, "}", "")
			body = append(body, fmt.Sprintf("\tvar r%d Runner = &W%d{}", i, i))
			pend = append(pend, pending{i, len(body), 1})
			body = append(body, fmt.Sprintf("\tgo r%d.Run()", i))
		case "closure":
			eb := entryBody(i, rec, "\t\t")
			pend = append(pend, pending{i, len(body), len(eb) + 2})
			body = append(body, "\tgo func() {")
			body = append(body, eb...)
			body = append(body, "\t}()")
		case "closure-capture":
			eb := entryBody(i, rec, "\t\t")
			body = append(body, fmt.Sprintf("\tk%d := %d", i, i))
			pend = append(pend, pending{i, len(body), len(eb) + 3})
			body = append(body, "\tgo func() {")
			body = append(body, fmt.Sprintf("\t\tnote = string(rune('a' + k%d))", i))
			body = append(body, eb...)
			body = append(body, "\t}()")
		case "closure-var":
			eb := entryBody(i, rec, "\t\t")
			body = append(body, fmt.Sprintf("\tf%d := func() {", i))
			body = append(body, eb...)
			body = append(body, "\t}")
			pend = append(pend, pending{i, len(body), 1})
			body = append(body, fmt.Sprintf("\tgo f%d()", i))
		case "funcvalue":
			named()
			body = append(body, fmt.Sprintf("\tvar g%d func() = idle", i), fmt.Sprintf("\tif !cond(60) {"), fmt.Sprintf("\t\tg%d = worker%d", i, i), "\t}")
			pend = append(pend, pending{i, len(body), 1})
			body = append(body, fmt.Sprintf("\tgo g%d()", i))
		case "in-closure":
			named()
			body = append(body, "\tfunc() {")
			pend = append(pend, pending{i, len(body), 1})
			body = append(body, fmt.Sprintf("\t\tgo worker%d()", i))
			body = append(body, "\t}()")
		case "in-goroutine":
			named()
			body = append(body, "\tgo func() {")
			body = append(body, "\t\tdefer func() { recover() }()")
			pend = append(pend, pending{i, len(body), 1})
			body = append(body, fmt.Sprintf("\t\tgo worker%d()", i))
			body = append(body, "\t}()")
		}
	}
	var b strings.Builder
	b.WriteString("package main\n\nvar done = make(chan int, 64)\nvar note string\n\ntype Runner interface{ Run() }\n\n")
	b.WriteString("type recT struct{}\n\nfunc (recT) rec() { recover() }\n\nfunc rec() { recover() }\n\nfunc nested() { recover() }\n\nfunc idle() { done <- 1 }\n\n")
	b.WriteString("func boom(i int) {\n\tif cond(i) {\n\t\tpanic(\"boom\")\n\t}\n}\n\n")
	b.WriteString(strings.Join(decl, "\n"))
	b.WriteString("\nfunc main() {\n")
	mainStart := strings.Count(b.String(), "\n") + 1
	b.WriteString(strings.Join(body, "\n"))
	fmt.Fprintf(&b, "\n\tfor i := 0; i < %d; i++ {\n\t\t<-done\n\t}\n}\n", n)
	for _, p := range pend {
		c.Launches[p.idx].GoLine = mainStart + p.line
		c.Launches[p.idx].End = mainStart + p.line + p.span - 1
	}
	c.Src = b.String()
	return c
}

const c19AnalysedPrelude = "package main\n\nvar opaque [64]bool\n\nfunc cond(i int) bool { return opaque[i&63] }\n"
const c19NativePrelude = "package main\n\nimport rt \"vnative/rt\"\n\nfunc cond(i int) bool { return rt.Opaque>>(uint(i)&63)&1 == 1 }\n\n// Run executes the program once.\nfunc Run() { main() }\n"

type c19Finding struct {
	Description string
	GoRoutine   struct {
		Function string
		Line     int
	}
	Creators []struct {
		Line int
	}
}

// c19Report runs the analysis in-process (JSON output captured) and returns the creator lines of all findings.
func c19Report(src string) (map[int]bool, []c19Finding, string) {
	l, err := core.LoadSource(map[string]string{"main.go": src, "prelude.go": c19AnalysedPrelude})
	if err != nil {
		panic(fmt.Sprintf("HARNESS: generated C19 program does not build: %v\n%s", err, src))
	}
	var pan string
	out := core.CaptureStdout(func() {
		defer func() {
			if r := recover(); r != nil {
				pan = fmt.Sprint(r)
			}
		}()
		maypanic.MayPanicAnalyzer(l.Prog, nil, true)
	})
	if pan != "" {
		return nil, nil, "may-panic analysis panicked: " + pan
	}
	var fs []c19Finding
	for _, line := range strings.Split(out, "\n") {
		line = strings.TrimSpace(line)
		if strings.HasPrefix(line, "[") {
			if err := json.Unmarshal([]byte(line), &fs); err != nil {
				return nil, nil, "HARNESS cannot parse maypanic JSON: " + err.Error()
			}
		}
	}
	lines := map[int]bool{}
	for _, f := range fs {
		for _, c := range f.Creators {
			lines[c.Line] = true
		}
	}
	return lines, fs, ""
}

var createdByRe = regexp.MustCompile(`created by [^\n]*\n\s+[^\n]*main\.go:(\d+)`)

// c19Judge returns "" or a violation. res may be nil (model only).
func c19Judge(c *c19Case, res *native.Result) string {
	creators, _, msg := c19Report(c.Src)
	if msg != "" {
		return msg
	}
	var problems []string
	for i, l := range c.Launches {
		if !l.recovers() && !creators[l.GoLine] {
			problems = append(problems, fmt.Sprintf("go statement on line %d launches a function without recovering defer (form %s, defers: %s) but it is not reported with that creation site", l.GoLine, l.Form, l.Rec))
		}
		_ = i
	}
	if res != nil {
		for _, r := range res.Runs {
			// which goroutine was told to panic
			idx := -1
			for i := range c.Launches {
				if r.Val>>(uint(i)&63)&1 == 1 {
					idx = i
				}
			}
			if idx < 0 || !r.Crashed {
				continue
			}
			if !strings.Contains(r.Stderr, "panic: boom") {
				continue
			}
			m := createdByRe.FindStringSubmatch(r.Stderr)
			if m == nil {
				continue
			}
			line, _ := strconv.Atoi(m[1])
			ok := false
			for _, l := range c.Launches {
				if l.GoLine <= line && line <= l.End && creators[l.GoLine] {
					ok = true
				}
			}
			if creators[line] {
				ok = true
			}
			if !ok {
				problems = append(problems, fmt.Sprintf("a native run was terminated by a panic in the goroutine created on line %d, which is not among the reported creation sites", line))
			}
		}
	}
	sort.Strings(problems)
	if len(problems) > 0 {
		return strings.Join(problems, "; ")
	}
	return ""
}

func c19Unit(c *c19Case, key string) native.Unit {
	var vals []uint64
	for i := range c.Launches {
		vals = append(vals, 1<<uint(i))
	}
	return native.Unit{Key: key, Vals: vals, Files: map[string]string{"main.go": c.Src, "prelude.go": c19NativePrelude}}
}

func c19Files(c *c19Case) map[string]string {
	b, _ := json.MarshalIndent(c.Launches, "", " ")
	return map[string]string{"main.go": c.Src, "prelude.go": c19AnalysedPrelude, "launches.json": string(b)}
}

func TestC19(t *testing.T) {
	rec := core.NewRecorder("C19", env, "cases = programs with 2..6 go statements in the forms {named function, method, closure literal with and "+
		"without captures, closure variable, function value (phi of two functions), method value, interface method, go inside a closure, go "+
		"inside another goroutine} whose entry functions defer {nothing, a closure calling recover, a named function calling recover, a "+
		"conditional recover, a non-recovering closure, a closure that only calls a function that calls recover, a recovering closure "+
		"variable, a recovering method, `defer recover()` itself (does not recover), a closure whose inner closure calls recover (does not "+
		"recover)}; the model's recovers/does-not-recover verdict is itself validated by the native run; oracle: (a) reference model - every go statement whose entry function has no directly recovering defer is reported with "+
		"that creation site; (b) native runs in which exactly one goroutine panics: the go statement named by the crash trace is a reported "+
		"creation site; non-trivial = >= 2 launch forms of which one is not a named function / closure literal, and >= 1 unrecovered entry; "+
		"distinct = hash of program")
	defer rec.Flush()
	replayKnown(t, "C19")
	off := excluded()
	nOff := 0
	for _, f := range c19Forms {
		if off["go-form:"+f] {
			nOff++
		}
	}
	rec.Count("launch_forms_excluded_by_known_finding", nOff)
	checks := env.Pick(600, 6000)
	nativeEvery := 6
	var units []native.Unit
	cases := map[string]*c19Case{}
	rapidSetup(checks, 19)
	n := 0
	rapid.Check(t, func(rt *rapid.T) {
		c := c19Gen(rt, off)
		key := core.Hash(c.Src)
		forms := map[string]bool{}
		dyn, unrec := false, false
		for _, l := range c.Launches {
			forms[l.Form] = true
			if l.Form != "named" && l.Form != "closure" {
				dyn = true
			}
			if !l.recovers() {
				unrec = true
			}
		}
		var labels []string
		for _, l := range c.Launches {
			labels = append(labels, "form:"+l.Form, "rec:"+l.Rec)
		}
		rec.Case(key, len(forms) >= 2 && dyn && unrec, labels, func() any { return map[string]any{"program": c.Src, "launches": c.Launches} })
		if msg := c19Judge(c, nil); msg != "" {
			m := env.Report(core.Violation{ID: "C19", Signature: c19Sig(msg), What: msg, Files: c19Files(c), Kind: "c19"})
			rt.Fatalf("%s", m)
		}
		n++
		if n%nativeEvery == 0 && cases[key] == nil {
			cases[key] = c
			units = append(units, c19Unit(c, key))
		}
	})
	if t.Failed() {
		return
	}
	// execution part on a sample of the cases
	dir := filepath.Join(env.Out, fmt.Sprintf("native-C19-%d", env.Shard))
	res, err := native.RunBatch(dir, units, native.Options{Workers: 3})
	if err != nil {
		t.Fatalf("HARNESS native batch: %v", err)
	}
	crashes, survived := 0, 0
	for key, c := range cases {
		r := res[key]
		if r == nil || r.BuildErr != "" {
			t.Fatalf("HARNESS: C19 program does not build natively: %v", r)
		}
		for _, run := range r.Runs {
			if run.Crashed {
				crashes++
			} else {
				survived++
			}
		}
		// the model itself is validated by the execution: an unrecovered panic must kill the process, a recovered one not
		for i, l := range c.Launches {
			for _, run := range r.Runs {
				if run.Val != 1<<uint(i) || run.TimedOut {
					continue
				}
				died := run.Crashed && strings.Contains(run.Stderr, "panic: boom")
				if l.Form == "funcvalue" || died == !l.recovers() {
					continue
				}
				t.Fatalf("HARNESS: model and execution disagree for launch %d (%+v): died=%v\n%s\n%s", i, l, died, c.Src, run.Stderr)
			}
		}
		if msg := c19Judge(c, r); msg != "" {
			m := env.Report(core.Violation{ID: "C19", Signature: c19Sig(msg), What: msg, Files: c19Files(c), Kind: "c19"})
			t.Fatalf("%s", m)
		}
	}
	rec.Count("native_runs_crashed_by_goroutine_panic", crashes)
	rec.Count("native_runs_survived", survived)
}

func c19Sig(msg string) string {
	if strings.Contains(msg, "panicked") {
		return "panic"
	}
	if i := strings.Index(msg, "(form "); i >= 0 {
		s := msg[i+6:]
		if j := strings.IndexAny(s, ",)"); j >= 0 {
			return "unreported-" + s[:j]
		}
	}
	return "unreported"
}

func init() {
	replayers["c19"] = func(dir string) string {
		src, err := os.ReadFile(filepath.Join(dir, "main.go"))
		if err != nil {
			return "HARNESS cannot read main.go"
		}
		var ls []c19Launch
		b, _ := os.ReadFile(filepath.Join(dir, "launches.json"))
		if err := json.Unmarshal(b, &ls); err != nil {
			return "HARNESS cannot parse launches.json"
		}
		c := &c19Case{Src: string(src), Launches: ls}
		return c19Judge(c, nil)
	}
}

package core

import (
	"fmt"
	"runtime/debug"
	"sort"
	"strings"
	"time"

	"github.com/awslabs/ar-go-tools/analysis/config"
	"github.com/awslabs/ar-go-tools/analysis/taint"
	"golang.org/x/tools/go/ssa"
)

// Pair is a canonical (source site, sink site) pair: lines in the main file (0 = no position).
type Pair struct {
	SrcFile  string
	Src      int
	SinkFile string
	Sink     int
}

func (p Pair) String() string {
	if p.SrcFile == p.SinkFile {
		return fmt.Sprintf("%d->%d", p.Src, p.Sink)
	}
	return fmt.Sprintf("%s:%d->%s:%d", p.SrcFile, p.Src, p.SinkFile, p.Sink)
}

// TaintOutcome is the canonicalised result of one taint.Analyze call.
type TaintOutcome struct {
	Pairs   map[Pair]bool
	Escapes map[int]bool // source lines reported as escaping
	Err     error        // error returned by Analyze
	Panic   string       // non-empty if Analyze panicked (value + stack)
	Log     string
	Result  taint.AnalysisResult
}

// PairList returns the sorted pair strings.
func (o *TaintOutcome) PairList() []string {
	var l []string
	for p := range o.Pairs {
		l = append(l, p.String())
	}
	sort.Strings(l)
	return l
}

func posOf(prog *ssa.Program, i ssa.Instruction) (string, int) {
	if i == nil {
		return "", 0
	}
	p, ok := taint.Position(prog, i)
	if !ok {
		return "", 0
	}
	f := p.Filename
	if k := strings.LastIndexByte(f, '/'); k >= 0 {
		f = f[k+1:]
	}
	return f, p.Line
}

// RunTaint runs taint.Analyze under recover and canonicalises the flows.
func RunTaint(cfg *config.Config, l *Loaded) *TaintOutcome {
	return runTaint(cfg, l, true)
}

func runTaint(cfg *config.Config, l *Loaded, capture bool) *TaintOutcome {
	out := &TaintOutcome{Pairs: map[Pair]bool{}, Escapes: map[int]bool{}}
	wrap := func(f func()) string { f(); return "" }
	if capture {
		wrap = CaptureStdout
	}
	out.Log = wrap(func() {
		defer func() {
			if r := recover(); r != nil {
				out.Panic = fmt.Sprintf("%v\n%s", r, debug.Stack())
			}
		}()
		res, err := taint.Analyze(cfg, l.Prog, l.Pkgs)
		out.Result = res
		out.Err = err
	})
	if out.Panic != "" {
		return out
	}
	if out.Result.TaintFlows != nil {
		for sink, srcs := range out.Result.TaintFlows.Sinks {
			kf, kl := posOf(l.Prog, sink.Instr)
			for src := range srcs {
				sf, sl := posOf(l.Prog, src.Instr)
				out.Pairs[Pair{sf, sl, kf, kl}] = true
			}
		}
		for _, srcs := range out.Result.TaintFlows.Escapes {
			for src := range srcs {
				_, sl := posOf(l.Prog, src)
				out.Escapes[sl] = true
			}
		}
	}
	return out
}

// RunTaintBudget is RunTaint with a wall-clock budget. Go cannot stop a goroutine: when the budget is exceeded the
// analysis keeps running in the background (and keeps a core busy); the caller gets nil and must treat the case as
// "slow / suspected divergence", never as a property verdict.
func RunTaintBudget(cfg *config.Config, l *Loaded, budget time.Duration) *TaintOutcome {
	ch := make(chan *TaintOutcome, 1)
	go func() { ch <- runTaint(cfg, l, false) }() // no stdout capture: a leaked run must not hold the capture lock
	select {
	case o := <-ch:
		return o
	case <-time.After(budget):
		return nil
	}
}

func configFromYAML(yaml string) (*config.Config, error) {
	return config.Load("verif-config.yaml", []byte(yaml))
}

// MustConfig parses a YAML config text; a parse error is a harness bug.
func MustConfig(yaml string) *config.Config {
	cfg, err := config.Load("verif-config.yaml", []byte(yaml))
	if err != nil {
		panic(fmt.Sprintf("harness config does not parse: %v\n%s", err, yaml))
	}
	return cfg
}

// TaintConfigYAML renders a taint config for generated programs whose sources are named source*, sinks sink*.
type TaintOpts struct {
	FieldSensitive bool
	OnDemand       bool
	PkgFilter      string
	UseEscape      bool
	MaxAlarms      int
	LogLevel       int
	Sanitizers     []string // method regexes
	Validators     []string
	ExtraOptions   string // raw yaml lines (indented 4 spaces) appended to options
	SpecFiles      []string
	SourceMethod   string
	SinkMethod     string
	ImplicitFail   bool // fail-on-implicit-flow of the taint problem
	SkipBoundLbls  bool // unsafe-skip-bound-labels of the taint problem
}

func (o TaintOpts) YAML() string {
	var b strings.Builder
	ll := o.LogLevel
	if ll == 0 {
		ll = 1
	}
	b.WriteString("options:\n")
	fmt.Fprintf(&b, "    log-level: %d\n", ll)
	if o.FieldSensitive {
		b.WriteString("    field-sensitive: true\n")
	}
	if o.OnDemand {
		b.WriteString("    summarize-on-demand: true\n")
	}
	if o.PkgFilter != "" {
		fmt.Fprintf(&b, "    pkg-filter: %q\n", o.PkgFilter)
	}
	if o.UseEscape {
		b.WriteString("    use-escape-analysis: true\n")
	}
	if o.MaxAlarms != 0 {
		fmt.Fprintf(&b, "    max-alarms: %d\n", o.MaxAlarms)
	}
	b.WriteString(o.ExtraOptions)
	src, snk := o.SourceMethod, o.SinkMethod
	if src == "" {
		src = "^source[0-9]*$"
	}
	if snk == "" {
		snk = "^sink[0-9]*$"
	}
	b.WriteString("taint-tracking-problems:\n  -\n    sources:\n")
	fmt.Fprintf(&b, "      - method: %q\n", src)
	b.WriteString("    sinks:\n")
	fmt.Fprintf(&b, "      - method: %q\n", snk)
	if len(o.Sanitizers) > 0 {
		b.WriteString("    sanitizers:\n")
		for _, s := range o.Sanitizers {
			fmt.Fprintf(&b, "      - method: %q\n", s)
		}
	}
	if len(o.Validators) > 0 {
		b.WriteString("    validators:\n")
		for _, s := range o.Validators {
			fmt.Fprintf(&b, "      - method: %q\n", s)
		}
	}
	if o.ImplicitFail {
		b.WriteString("    fail-on-implicit-flow: true\n")
	}
	if o.SkipBoundLbls {
		b.WriteString("    unsafe-skip-bound-labels: true\n")
	}
	if len(o.SpecFiles) > 0 {
		b.WriteString("dataflow-specs:\n")
		for _, s := range o.SpecFiles {
			fmt.Fprintf(&b, "  - %q\n", s)
		}
	}
	return b.String()
}

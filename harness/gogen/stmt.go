package gogen

import (
	"fmt"
	"strings"
)

var stmtKinds = []string{
	"source", "sink", "decl", "assign", "store", "call", "methodcall", "ifacecall", "funcval", "closure", "defer",
	"if", "for", "range", "switch", "typeswitch", "commaok", "chan", "copy", "mapops", "generic", "variadic",
	"methodvalue", "structcopy", "return", "panic", "sanitize", "validate", "globalrw", "goto", "wild", "probe", "go",
}

var sourceKinds = []struct {
	name string
	typ  Type
}{{"source1", TStr}, {"source1", TStr}, {"source1", TStr}, {"source2", TPS}, {"source3", TSlice}, {"source4", TAny}}

// block generates n statements in a new scope.
func (g *gen) block(n int) {
	saved := len(g.scope)
	g.depth++
	for i := 0; i < n; i++ {
		g.stmt()
	}
	g.depth--
	g.scope = g.scope[:saved]
}

func (g *gen) newVar(t Type, e string) string {
	v := g.fresh()
	if t == TBox || t == TAny || t == TFunc {
		g.emit("var %s %s = %s; _ = %s", v, t, e, v)
	} else {
		g.emit("%s := %s; _ = %s", v, e, v)
	}
	g.declare(v, t)
	return v
}

func (g *gen) randType(label string) Type {
	t := valueTypes[g.intn(len(valueTypes), label)]
	if g.typeOff(t) {
		// known finding: a struct copied by value shares the objects behind its reference fields with the original; a
		// write through one copy afterwards is not seen through the other
		g.prog.Excluded++
		return TPS
	}
	return t
}

func (g *gen) sinkStmt() {
	k := g.intn(10, "sinkkind")
	line := g.nextLine()
	var args []string
	name := "sink1"
	mk := func() string {
		t := g.randType("sinktype")
		vs := g.varsOf(t)
		if len(vs) == 0 {
			t = TStr
		}
		if v, ok := g.pickVar(t, "sinkvar"); ok {
			if sl, ok := g.directSrc[v.name]; ok {
				g.prog.Direct[[2]int{sl, line}] = true
			}
			return v.name
		}
		return g.expr(TStr, 1)
	}
	switch {
	case k < 6:
		args = []string{mk()}
	case k < 8:
		name = "sink2"
		args = []string{g.expr(TStr, 1)}
	case k < 9:
		name = "sink3"
		args = []string{mk(), mk()}
	default:
		name = "sink4"
		args = []string{mk(), mk(), mk()}
		g.feat("variadic-sink")
	}
	g.prog.Sinks[line] = name
	g.prog.SinkFunc[line] = g.curName
	pre := ""
	if g.depth > 0 && !g.inDefer && g.chance(12, "defersink") && !g.off("defer-sink") && !g.off("iface-boxes-ref") {
		pre = "defer "
		g.feat("defer-sink")
	}
	g.emit("%s%s(%d, %s)", pre, name, line, strings.Join(args, ", "))
}

func (g *gen) sourceStmt() {
	sk := sourceKinds[g.intn(len(sourceKinds), "sourcekind")]
	line := g.nextLine()
	g.prog.Sources[line] = sk.name
	g.prog.SrcFunc[line] = g.curName
	// sometimes assign to an existing variable instead of declaring
	if v, ok := g.pickVar(sk.typ, "srcassign"); ok && g.chance(25, "srcassign?") {
		g.emit("%s = %s(%d)", v.name, sk.name, line)
		return
	}
	v := g.fresh()
	g.emit("%s := %s(%d); _ = %s", v, sk.name, line, v)
	g.declare(v, sk.typ)
	g.directSrc[v] = line
}

// callArgs returns call-free argument expressions for fn (without receiver and depth argument).
func (g *gen) callArgs(f *Fn) []string {
	var args []string
	for _, p := range f.Params {
		args = append(args, g.expr(p, 1))
	}
	return args
}

// bindResults emits "v1, v2 := <call>" and declares the results.
func (g *gen) bindResults(res []Type, call string) {
	if len(res) == 0 {
		g.emit("%s", call)
		return
	}
	var names, blanks []string
	for _, r := range res {
		v := g.fresh()
		names = append(names, v)
		blanks = append(blanks, "_")
		_ = r
	}
	if g.chance(15, "blankresult") && len(res) > 1 {
		// keep only one result
		k := g.intn(len(res), "keep")
		for i := range names {
			if i != k {
				names[i] = "_"
			}
		}
		g.feat("tuple-blank")
	}
	g.emit("%s := %s; %s = %s", strings.Join(names, ", "), call, strings.Join(blanks, ", "), strings.Join(namesOrBlank(names), ", "))
	var strs []string
	for i, r := range res {
		if names[i] != "_" {
			g.declare(names[i], r)
			if r == TStr {
				strs = append(strs, names[i])
			}
		}
	}
	if len(strs) >= 2 && g.chance(30, "tupleconcat") {
		// two elements of the tuple returned by ONE call flow into one argument of another call
		g.newVar(TStr, "ident("+strs[0]+" + "+strs[1]+")")
		g.feat("tuple-elements-into-one-argument")
	}
}

func namesOrBlank(n []string) []string {
	r := make([]string, len(n))
	for i, x := range n {
		if x == "_" {
			r[i] = "0"
		} else {
			r[i] = x
		}
	}
	return r
}

func (g *gen) callees() []*Fn {
	var r []*Fn
	for i, f := range g.fns {
		if i > g.curFn {
			r = append(r, f)
		}
	}
	return r
}

func (g *gen) callExpr(f *Fn) string {
	args := g.callArgs(f)
	if f.Rec {
		args = append([]string{"2"}, args...)
	}
	switch f.Recv {
	case TPS:
		return "(" + g.expr(TPS, 1) + ")." + f.Name + "(" + strings.Join(args, ", ") + ")"
	case TS:
		return "(" + g.expr(TS, 1) + ")." + f.Name + "(" + strings.Join(args, ", ") + ")"
	}
	return f.Name + "(" + strings.Join(args, ", ") + ")"
}

func (g *gen) stmt() {
	kinds := stmtKinds
	k := g.weighted("stmt", kinds)
	if g.depth >= g.p.MaxDepth {
		switch k {
		case "if", "for", "range", "switch", "typeswitch", "closure", "goto":
			k = "decl"
		}
	}
	switch k {
	case "source":
		g.sourceStmt()
	case "sink":
		g.sinkStmt()
	case "decl":
		t := g.randType("decltype")
		g.newVar(t, g.expr(t, 0))
	case "assign":
		t := g.randType("asgtype")
		if v, ok := g.pickVar(t, "asgvar"); ok {
			g.emit("%s = %s", v.name, g.expr(t, 0))
			g.feat("assign")
		} else {
			g.newVar(t, g.expr(t, 0))
		}
	case "store":
		g.storeStmt()
	case "call":
		cs := g.callees()
		if len(cs) == 0 {
			g.newVar(TStr, g.expr(TStr, 0))
			return
		}
		f := cs[g.intn(len(cs), "callee")]
		pre := ""
		if g.chance(10, "defercall") && g.depth > 0 && !g.inDefer && !g.off("defer-call") {
			g.feat("defer-call")
			g.emit("defer %s", g.callExpr(f))
			return
		}
		g.feat("call")
		if len(f.Results) > 1 {
			g.feat("multi-result")
		}
		if f.Recv != "" {
			g.feat("method-call")
		}
		g.bindResults(f.Results, pre+g.callExpr(f))
	case "methodcall":
		if ps, ok := g.pickVar(TPS, "recv"); ok {
			switch g.intn(5, "meth") {
			case 0:
				g.newVar(TStr, ps.name+".GetA()")
			case 1:
				g.emit("%s.SetA(%s)", ps.name, g.expr(TStr, 1))
			case 2:
				g.newVar(TStr, ps.name+".CopyB()")
			case 3:
				g.newVar(TPS, ps.name+".Self()")
			default:
				g.bindResults([]Type{TStr, TStr}, ps.name+".Both()")
			}
			g.feat("method-call")
		}
	case "ifacecall":
		if b, ok := g.pickVar(TBox, "box"); ok {
			switch g.intn(3, "getput") {
			case 0:
				g.newVar(TStr, b.name+".Get()")
			case 1:
				g.newVar(TStr, b.name+".peek()") // unexported interface method
			default:
				g.emit("%s.Put(%s)", b.name, g.expr(TStr, 1))
			}
			g.feat("iface-call")
		} else {
			g.newVar(TBox, g.lit(TBox, 0))
		}
	case "funcval":
		if f, ok := g.pickVar(TFunc, "fv"); ok {
			g.newVar(TStr, f.name+"("+g.expr(TStr, 1)+")")
			g.feat("funcval-call")
		} else {
			g.newVar(TFunc, g.lit(TFunc, 0))
		}
	case "closure":
		g.closureStmt()
	case "defer":
		if g.inDefer || g.off("defer-closure") {
			return
		}
		g.feat("defer-closure")
		g.emit("defer func() {")
		g.indent++
		if e := g.enterCall(); e != "" {
			g.emit("%s", strings.TrimSuffix(e, "; "))
		}
		g.inDefer = true
		g.closureDepth++
		g.block(1 + g.intn(3, "defern"))
		g.closureDepth--
		g.inDefer = false
		g.indent--
		g.emit("}()")
	case "if":
		g.feat("if")
		g.emit("if cond(%d) {", g.bit())
		g.indent++
		g.block(1 + g.intn(3, "ifn"))
		g.indent--
		if g.chance(50, "else") {
			g.emit("} else {")
			g.indent++
			g.block(1 + g.intn(3, "elsen"))
			g.indent--
		}
		g.emit("}")
	case "for":
		g.feat("for")
		i := g.fresh()
		if g.chance(35, "forever") {
			// loop without header: the body block is its own predecessor when the body has no inner control flow
			g.feat("for-single-block")
			g.emit("%s := 0", i)
			acc := ""
			if g.chance(70, "foracc") {
				// an accumulator that is used at the start of the body and updated at its end: the value travels around
				// the loop through a phi of the body block
				acc = g.newVar(TStr, g.expr(TStr, 1))
				g.feat("loop-accumulator")
			}
			g.emit("for {")
			g.nbits++
			g.indent++
			if acc != "" {
				line := g.nextLine()
				g.prog.Sinks[line] = "sink1"
				g.prog.SinkFunc[line] = g.curName
				g.emit("sink1(%d, %s)", line, acc)
			}
			g.inLoop++
			g.block(1 + g.intn(3, "forn"))
			g.inLoop--
			if acc != "" {
				g.emit("%s = %s + %s", acc, acc, g.expr(TStr, 1))
			}
			g.emit("%s++", i)
			g.emit("if %s >= bound(%d) {", i, g.bit())
			g.emit("\tbreak")
			g.emit("}")
			g.indent--
			g.emit("}")
			break
		}
		condVar := ""
		if g.p.Go && len(g.varsOf(TPS)) > 0 && g.chance(40, "forcond") {
			v, _ := g.pickVar(TPS, "forcondvar")
			condVar = v.name
		}
		if condVar != "" {
			// the loop header reads memory (first operand of &&) that the body may share with a goroutine
			g.feat("for-cond-reads-memory")
			g.emit("for %s := 0; %s.B != \"stop\" && %s < bound(%d); %s++ {", i, condVar, i, g.bit(), i)
		} else {
			g.emit("for %s := 0; %s < bound(%d); %s++ {", i, i, g.bit(), i)
		}
		g.nbits++
		g.indent++
		g.inLoop++
		g.block(1 + g.intn(3, "forn"))
		if g.chance(20, "brk") {
			g.emit("if cond(%d) {", g.bit())
			g.emit("\t%s", []string{"break", "continue"}[g.intn(2, "bc")])
			g.emit("}")
		}
		g.inLoop--
		g.indent--
		g.emit("}")
	case "range":
		g.rangeStmt()
	case "switch":
		g.feat("switch")
		g.emit("switch sel(%d) {", g.bit())
		g.nbits++
		for c := 0; c < 2; c++ {
			g.emit("case %d:", c)
			g.indent++
			g.block(1 + g.intn(2, "casen"))
			if g.chance(15, "fallthrough") && c == 0 {
				g.emit("fallthrough")
				g.feat("fallthrough")
			}
			g.indent--
		}
		g.emit("default:")
		g.indent++
		g.block(1)
		g.indent--
		g.emit("}")
	case "typeswitch":
		if x, ok := g.pickVar(TAny, "tsw"); ok {
			g.feat("typeswitch")
			y := g.fresh()
			g.emit("switch %s := %s.(type) {", y, x.name)
			for _, ct := range []Type{TStr, TPS, TSlice} {
				g.emit("case %s:", ct)
				g.indent++
				saved := len(g.scope)
				g.emit("_ = %s", y)
				g.declare(y, ct)
				g.block(1 + g.intn(2, "tcasen"))
				g.scope = g.scope[:saved]
				g.indent--
			}
			g.emit("default:")
			g.emit("\t_ = %s", y)
			g.emit("}")
		} else {
			g.newVar(TAny, g.lit(TAny, 0))
		}
	case "commaok":
		g.commaOk()
	case "chan":
		g.chanStmt()
	case "copy":
		if a, ok := g.pickVar(TSlice, "cpdst"); ok {
			g.emit("copy(%s, %s)", a.name, g.expr(TSlice, 1))
			g.feat("copy")
		} else if b, ok := g.pickVar(TBytes, "cpdstb"); ok {
			g.emit("copy(%s, %s)", b.name, g.expr(TStr, 1))
			g.feat("copy-string-bytes")
		}
	case "mapops":
		if m, ok := g.pickVar(TMap, "mop"); ok {
			switch g.intn(3, "mopk") {
			case 0:
				g.emit("%s[%s] = %s", m.name, g.expr(TStr, 1), g.expr(TStr, 1))
				g.feat("map-update-key")
			case 1:
				g.emit("delete(%s, \"k\")", m.name)
				g.feat("map-delete")
			default:
				g.emit("clear(%s)", m.name)
				g.feat("clear")
			}
		} else {
			g.newVar(TMap, g.lit(TMap, 0))
		}
	case "generic":
		t := []Type{TStr, TPS, TSlice, TAny}[g.intn(4, "gent")]
		if g.chance(60, "gen1") {
			g.newVar(t, "ident("+g.expr(t, 1)+")")
		} else {
			u := []Type{TStr, TPS}[g.intn(2, "genu")]
			g.bindResults([]Type{u, t}, "pair("+g.expr(t, 1)+", "+g.expr(u, 1)+")")
		}
		g.feat("generic")
	case "variadic":
		if g.chance(50, "spread") {
			g.newVar(TStr, "vcat("+g.expr(TSlice, 1)+"...)")
			g.feat("variadic-spread")
		} else {
			g.newVar(TStr, "vcat("+g.expr(TStr, 1)+", "+g.expr(TStr, 1)+")")
			g.feat("variadic")
		}
	case "methodvalue":
		if ps, ok := g.pickVar(TPS, "mvrecv"); ok {
			switch g.intn(3, "mvk") {
			case 0:
				if g.off("method-value") {
					return
				}
				m := g.newVarRaw("func() string", ps.name+".GetA")
				g.newVar(TStr, m+"()")
				g.feat("method-value")
			case 1:
				if g.off("method-expr") {
					return
				}
				m := g.newVarRaw("func(*S, string)", "(*S).SetA")
				g.emit("%s(%s, %s)", m, ps.name, g.expr(TStr, 1))
				g.feat("method-expr")
			default:
				if g.off("method-value") {
					return
				}
				if b, ok := g.pickVar(TBox, "mvbox"); ok {
					m := g.newVarRaw("func(string)", b.name+".Put")
					g.emit("%s(%s)", m, g.expr(TStr, 1))
					g.feat("method-value-iface")
				}
			}
		}
	case "structcopy":
		if g.off("struct-value-copy") {
			return
		}
		if ps, ok := g.pickVar(TPS, "scp"); ok {
			if g.chance(50, "scpdir") || (g.curFn >= 0 && g.off("callee-stores-ref")) {
				g.newVar(TS, "*"+ps.name)
			} else {
				g.emit("*%s = %s", ps.name, g.expr(TS, 1))
				g.feat("store-struct")
			}
			g.feat("struct-copy")
		}
	case "return":
		if g.depth > 1 && g.curFn >= 0 && g.closureDepth == 0 && g.chance(50, "earlyret") {
			g.feat("early-return")
			g.emit("if cond(%d) {", g.bit())
			g.indent++
			g.returnStmt()
			g.indent--
			g.emit("}")
		}
	case "panic":
		if g.closureDepth == 0 && !g.off("panic") {
			g.feat("panic")
			g.emit("if cond(%d) {", g.bit())
			g.emit("\tpanic(%s)", g.expr(TStr, 1))
			g.emit("}")
		}
	case "wild":
		g.wildStmt()
	case "go":
		g.goStmt()
	case "probe":
		if !g.p.Probes {
			return
		}
		kinds := []struct {
			t  Type
			fn string
		}{{TPS, "probePS"}, {TPS, "probePS"}, {TPStr, "probeP"}, {TSlice, "probeL"}, {TMap, "probeM"}}
		k := kinds[g.intn(len(kinds), "probekind")]
		// probe every variable of the kind that is in scope (up to 4): aliases among them are what the check looks for
		vs := g.varsOf(k.t)
		if len(vs) > 4 {
			vs = vs[len(vs)-4:]
		}
		for _, v := range vs {
			g.nprobe++
			g.emit("%s(%d, %s)", k.fn, g.nprobe, v.name)
			g.feat("probe")
		}
	case "sanitize":
		g.sanitizeStmt()
	case "validate":
		g.validateStmt()
	case "globalrw":
		g.globalStmt()
	case "goto":
		if g.closureDepth == 0 && g.inLoop == 0 && !g.inDefer {
			g.nlabel++
			lbl := fmt.Sprintf("L%d", g.nlabel)
			g.feat("labelled-loop")
			i := g.fresh()
			g.emit("%s:", lbl)
			g.emit("for %s := 0; %s < bound(%d); %s++ {", i, i, g.bit(), i)
			g.nbits++
			g.indent++
			g.inLoop++
			g.block(1 + g.intn(2, "lbn"))
			g.emit("if cond(%d) {", g.bit())
			g.emit("\t%s %s", []string{"break", "continue"}[g.intn(2, "lbc")], lbl)
			g.emit("}")
			g.block(1)
			g.inLoop--
			g.indent--
			g.emit("}")
		}
	}
}

func (g *gen) newVarRaw(goType string, e string) string {
	v := g.fresh()
	g.emit("%s := %s; _ = %s", v, e, v)
	_ = goType
	return v
}

func (g *gen) storeStmt() {
	type alt struct {
		t    Type
		feat string
		f    func(v string)
	}
	var alts []alt
	inHelper := g.curFn >= 0
	add := func(t Type, feat string, f func(v string)) {
		if g.p.Off[feat] {
			return
		}
		if inHelper && g.p.Off["callee-stores-ref"] {
			switch feat {
			case "store-field-deep", "store-field-special", "store-elem-ptr", "map-update-ptr":
				g.prog.Excluded++
				return
			}
		}
		if len(g.varsOf(t)) > 0 {
			alts = append(alts, alt{t, feat, f})
		}
	}
	idx := func() string { return fmt.Sprint(g.intn(2, "sidx")) }
	add(TPStr, "store-ptr", func(v string) { g.emit("*%s = %s", v, g.expr(TStr, 1)) })
	add(TS, "store-field", func(v string) { g.emit("%s.%s = %s", v, []string{"A", "B"}[g.intn(2, "sf")], g.expr(TStr, 1)) })
	add(TPS, "store-field-ptr", func(v string) {
		g.emit("%s.%s = %s", v, []string{"A", "B"}[g.intn(2, "sf")], g.expr(TStr, 1))
	})
	add(TPS, "store-field-deep", func(v string) {
		switch g.intn(6, "deep") {
		case 0:
			g.emit("%s.L[%s] = %s", v, idx(), g.expr(TStr, 1))
		case 1:
			g.emit("%s.M[\"k\"] = %s", v, g.expr(TStr, 1))
		case 2:
			g.emit("*%s.P = %s", v, g.expr(TStr, 1))
		case 3:
			g.emit("%s.P = %s", v, g.expr(TPStr, 1))
		case 4:
			g.emit("%s.L = %s", v, g.expr(TSlice, 1))
		default:
			g.emit("%s.M = %s", v, g.expr(TMap, 1))
		}
	})
	add(TPS, "store-field-special", func(v string) {
		switch g.intn(4, "spec") {
		case 0:
			g.emit("%s.X = %s", v, g.expr(TAny, 1))
			g.feat("field-any")
		case 1:
			g.emit("%s.F = %s", v, g.expr(TFunc, 1))
			g.feat("field-func")
		case 2:
			g.emit("%s.I = %s", v, g.expr(TBox, 1))
			g.feat("field-iface")
		default:
			g.emit("%s.N = %s", v, g.expr(TPS, 1))
			g.feat("field-next")
		}
	})
	add(TPS, "load-field-special", func(v string) {
		switch g.intn(4, "lspec") {
		case 0:
			g.newVar(TAny, v+".X")
		case 1:
			g.emit("if %s.F != nil {", v)
			g.indent++
			saved := len(g.scope)
			nv := g.newVar(TStr, v+".F("+g.expr(TStr, 1)+")")
			g.scope = g.scope[:saved]
			g.indent--
			g.emit("}")
			_ = nv
			g.feat("field-func-call")
		case 2:
			g.emit("if %s.I != nil {", v)
			g.indent++
			if g.chance(50, "igp") {
				g.emit("%s.I.Put(%s)", v, g.expr(TStr, 1))
			} else {
				g.emit("sink1(%d, %s.I.Get())", g.nextLine(), v)
				g.prog.Sinks[g.nextLine()-1] = "sink1"
				g.prog.SinkFunc[g.nextLine()-1] = g.curName
			}
			g.indent--
			g.emit("}")
			g.feat("field-iface-call")
		default:
			g.emit("if %s.N != nil {", v)
			g.indent++
			if g.chance(50, "nrw") {
				g.emit("%s.N.A = %s", v, g.expr(TStr, 1))
			} else {
				g.emit("sink1(%d, %s.N.A)", g.nextLine(), v)
				g.prog.Sinks[g.nextLine()-1] = "sink1"
				g.prog.SinkFunc[g.nextLine()-1] = g.curName
			}
			g.indent--
			g.emit("}")
			g.feat("field-next-deref")
		}
	})
	add(TSlice, "store-elem", func(v string) { g.emit("%s[%s] = %s", v, idx(), g.expr(TStr, 1)) })
	add(TMap, "map-update", func(v string) { g.emit("%s[\"k\"] = %s", v, g.expr(TStr, 1)) })
	add(TArr, "store-array", func(v string) { g.emit("%s[%s] = %s", v, idx(), g.expr(TStr, 1)) })
	add(TBytes, "store-byte", func(v string) {
		g.emit("if len(%s) > 0 {", v)
		g.emit("\t%s[0] = 'x'", v)
		g.emit("}")
	})
	add(TLPS, "store-elem-ptr", func(v string) {
		if g.chance(50, "lpsk") {
			g.emit("%s[0] = %s", v, g.expr(TPS, 1))
		} else {
			g.emit("%s[0].A = %s", v, g.expr(TStr, 1))
		}
	})
	add(TMPS, "map-update-ptr", func(v string) {
		if g.chance(50, "mpsk") {
			g.emit("%s[\"k\"] = %s", v, g.expr(TPS, 1))
		} else {
			g.emit("if p := %s[\"k\"]; p != nil {", v)
			if g.chance(50, "mpsrw") {
				g.emit("\tp.A = %s", g.expr(TStr, 1))
			} else {
				g.emit("\tsink1(%d, p.A)", g.nextLine())
				g.prog.Sinks[g.nextLine()-1] = "sink1"
				g.prog.SinkFunc[g.nextLine()-1] = g.curName
			}
			g.emit("}")
		}
	})
	add(TE, "store-promoted", func(v string) {
		g.emit("%s.%s = %s", v, []string{"A", "Z", "S.B"}[g.intn(3, "ef")], g.expr(TStr, 1))
	})
	if len(alts) == 0 {
		g.newVar(TPS, g.lit(TPS, 0))
		return
	}
	a := alts[g.intn(len(alts), "storekind")]
	v, _ := g.pickVar(a.t, "storevar")
	g.feat(a.feat)
	if isParamName(v.name) && g.p.Off["param-to-param-store"] {
		// known finding: data of one parameter stored into the memory of another parameter (or the receiver) can make
		// the traversal prune the later visit of that parameter from the call site. The right-hand side is generated
		// without the other parameters in scope.
		saved := g.scope
		var filtered []variable
		for _, sv := range g.scope {
			if !isParamName(sv.name) || sv.name == v.name {
				filtered = append(filtered, sv)
			}
		}
		g.scope = filtered
		g.prog.Excluded++
		a.f(v.name)
		// variables declared by the store alternative (if any) stay out of scope: restore
		g.scope = saved
		return
	}
	a.f(v.name)
}

func isParamName(n string) bool {
	if n == "r" {
		return true
	}
	if len(n) >= 2 && n[0] == 'p' {
		for _, c := range n[1:] {
			if c < '0' || c > '9' {
				return false
			}
		}
		return true
	}
	return false
}

func (g *gen) closureStmt() {
	if g.closureDepth >= 2 {
		return
	}
	g.feat("closure")
	f := g.fresh()
	kind := g.intn(3, "clk")
	switch kind {
	case 0: // func(string) string with body
		g.emit("%s := func(x string) string {", f)
		g.indent++
		if e := g.enterCall(); e != "" {
			g.emit("%s", strings.TrimSuffix(e, "; "))
		}
		saved := len(g.scope)
		g.declare("x", TStr)
		g.closureDepth++
		g.depth++
		n := 1 + g.intn(3, "cln")
		for i := 0; i < n; i++ {
			g.stmt()
		}
		g.emit("return %s", g.expr(TStr, 1))
		g.depth--
		g.closureDepth--
		g.scope = g.scope[:saved]
		g.indent--
		g.emit("}; _ = %s", f)
		g.declare(f, TFunc)
	case 1: // func() mutating captured variables, called later (maybe)
		g.emit("%s := func() {", f)
		g.indent++
		if e := g.enterCall(); e != "" {
			g.emit("%s", strings.TrimSuffix(e, "; "))
		}
		g.closureDepth++
		g.block(1 + g.intn(3, "cln"))
		g.closureDepth--
		g.indent--
		g.emit("}")
		if g.chance(70, "callnow") {
			g.emit("%s()", f)
		} else if !g.inDefer && !g.off("defer-call") {
			g.emit("defer %s()", f)
			g.feat("defer-closure-var")
		} else {
			g.emit("%s()", f)
		}
	default: // closure returning a closure (nested capture)
		if v, ok := g.pickVar(TStr, "nestcap"); ok {
			g.emit("%s := func(y string) func(string) string {", f)
			g.emit("\t%sreturn func(x string) string { %sreturn x + y + %s }", g.enterCall(), g.enterCall(), v.name)
			g.emit("}")
			h := g.newVar(TFunc, f+"("+g.expr(TStr, 1)+")")
			_ = h
			g.feat("closure-nested")
		}
	}
}

func (g *gen) rangeStmt() {
	switch g.intn(4, "rangekind") {
	case 0:
		if l, ok := g.pickVar(TSlice, "rl"); ok {
			g.feat("range-slice")
			x := g.fresh()
			g.emit("for _, %s := range %s {", x, l.name)
			g.indent++
			saved := len(g.scope)
			g.emit("_ = %s", x)
			g.declare(x, TStr)
			g.inLoop++
			g.block(1 + g.intn(2, "rn"))
			g.inLoop--
			g.scope = g.scope[:saved]
			g.indent--
			g.emit("}")
		}
	case 1:
		if m, ok := g.pickVar(TMap, "rm"); ok {
			g.feat("range-map")
			k, x := g.fresh(), g.fresh()
			g.emit("for %s, %s := range %s {", k, x, m.name)
			g.indent++
			saved := len(g.scope)
			g.emit("_, _ = %s, %s", k, x)
			g.declare(k, TStr)
			g.declare(x, TStr)
			g.inLoop++
			g.block(1 + g.intn(2, "rn"))
			g.inLoop--
			g.scope = g.scope[:saved]
			g.indent--
			g.emit("}")
		}
	case 2:
		if s, ok := g.pickVar(TStr, "rs"); ok && !g.off("range-string") {
			g.feat("range-string")
			acc := g.newVar(TStr, "\"\"")
			r := g.fresh()
			g.emit("for _, %s := range %s {", r, s.name)
			g.emit("\t%s += string(%s)", acc, r)
			g.emit("}")
		}
	default:
		if l, ok := g.pickVar(TLPS, "rlp"); ok {
			g.feat("range-slice-ptr")
			x := g.fresh()
			g.emit("for _, %s := range %s {", x, l.name)
			g.indent++
			saved := len(g.scope)
			g.emit("_ = %s", x)
			g.declare(x, TPS)
			g.inLoop++
			g.block(1 + g.intn(2, "rn"))
			g.inLoop--
			g.scope = g.scope[:saved]
			g.indent--
			g.emit("}")
		}
	}
}

func (g *gen) commaOk() {
	switch g.intn(3, "cok") {
	case 0:
		if x, ok := g.pickVar(TAny, "cox"); ok {
			t := []Type{TStr, TPS, TSlice}[g.intn(3, "cot")]
			v, okv := g.fresh(), g.fresh()
			g.emit("%s, %s := %s.(%s); _ = %s", v, okv, x.name, t, okv)
			g.emit("_ = %s", v)
			if t == TPS {
				// keep later dereferences safe
				g.emit("if %s == nil {", v)
				g.emit("\t%s = newS(\"\")", v)
				g.emit("}")
			}
			g.declare(v, t)
			g.feat("typeassert-commaok")
		}
	case 1:
		if m, ok := g.pickVar(TMap, "com"); ok {
			v, okv := g.fresh(), g.fresh()
			g.emit("%s, %s := %s[\"k\"]; _ = %s", v, okv, m.name, okv)
			g.emit("_ = %s", v)
			g.declare(v, TStr)
			g.feat("map-lookup-commaok")
		}
	default:
		if x, ok := g.pickVar(TAny, "cox2"); ok && !g.off("typeassert") {
			// panicking form, guarded by a comma-ok test of the same type so that it rarely panics
			v := g.fresh()
			g.emit("if _, ok := %s.(string); ok {", x.name)
			g.indent++
			g.emit("%s := %s.(string); _ = %s", v, x.name, v)
			saved := len(g.scope)
			g.declare(v, TStr)
			g.block(1)
			g.scope = g.scope[:saved]
			g.indent--
			g.emit("}")
			g.feat("typeassert")
		}
	}
}

func (g *gen) chanStmt() {
	if g.off("chan") {
		return
	}
	if g.p.Probes && len(g.varsOf(TPS)) > 0 && g.chance(30, "chanstruct") {
		// a struct VALUE that holds pointers travels through a channel, sent by a select case
		p, _ := g.pickVar(TPS, "chanstructv")
		ch, got, q := g.fresh(), g.fresh(), g.fresh()
		g.feat("chan-of-structs-select-send")
		g.emit("%s := make(chan S, 2)", ch)
		g.emit("select {")
		g.emit("case %s <- S{A: \"c\", P: %s.P, L: %s.L, M: %s.M, N: %s}:", ch, p.name, p.name, p.name, p.name)
		g.emit("default:")
		g.emit("}")
		g.emit("if len(%s) > 0 {", ch)
		g.emit("\t%s := <-%s", got, ch)
		g.emit("\t%s := %s.N; _ = %s", q, got, q)
		g.nprobe++
		g.emit("\tprobePS(%d, %s)", g.nprobe, p.name)
		g.nprobe++
		g.emit("\tprobePS(%d, %s)", g.nprobe, q)
		g.nprobe++
		g.emit("\tprobeP(%d, %s.P)", g.nprobe, p.name)
		g.nprobe++
		g.emit("\tprobeP(%d, %s.P)", g.nprobe, got)
		g.emit("}")
		g.feat("probe")
		return
	}
	if g.p.Go && len(g.varsOf(TPS)) > 0 && g.chance(25, "chanptr") {
		// a channel of pointers: an object is put in the channel, then a select whose send case is listed before its
		// receive case may take it out again; the received pointer is used in the case body
		p, _ := g.pickVar(TPS, "chanptrv")
		ch, q := g.fresh(), g.fresh()
		g.feat("chan-of-pointers-select")
		g.emit("%s := make(chan *S, 2)", ch)
		g.emit("%s <- %s", ch, p.name)
		g.emit("select {")
		g.emit("case %s <- newS(%q):", ch, "c"+ch)
		g.emit("case %s := <-%s:", q, ch)
		g.indent++
		g.emit("_ = %s", q)
		save := g.scope
		g.declare(q, TPS)
		g.emit("%s.B = %s", q, g.expr(TStr, 1))
		g.block(1 + g.intn(2, "chanptrn"))
		g.scope = save
		g.indent--
		g.emit("default:")
		g.emit("}")
		return
	}
	c, ok := g.pickVar(TChan, "ch")
	if !ok {
		v := g.fresh()
		g.emit("%s := make(chan string, 4); _ = %s", v, v)
		g.declare(v, TChan)
		return
	}
	g.feat("chan")
	switch g.intn(3, "chk") {
	case 0:
		g.emit("select {")
		g.emit("case %s <- %s:", c.name, g.expr(TStr, 1))
		g.emit("default:")
		g.emit("}")
	case 1:
		v := g.newVar(TStr, "\"\"")
		g.emit("select {")
		g.emit("case %s = <-%s:", v, c.name)
		g.emit("default:")
		g.emit("}")
	default:
		v := g.newVar(TStr, "\"\"")
		g.emit("if len(%s) > 0 {", c.name)
		g.emit("\t%s = <-%s", v, c.name)
		g.emit("}")
	}
}

// globalStmt reads or writes one of the package-level variables.
func (g *gen) globalStmt() {
	type gl struct {
		name string
		t    Type
	}
	gs := []gl{{"G0", TStr}, {"GP", TPS}, {"GS", TS}, {"GL", TSlice}, {"GM", TMap}, {"GA", TArr}, {"GF", TFunc}, {"GX", TAny}, {"GPP", TPStr}}
	c := gs[g.intn(len(gs), "glob")]
	if c.name == "GA" && g.off("global-array") {
		return
	}
	g.feat("global")
	w := g.chance(50, "globw")
	if g.p.Off["global-indirect-write"] {
		// known finding: writes THROUGH a global (field of a global struct, element of a global slice/map/array,
		// object behind a global pointer) are not connected to reads in other functions. Only whole-variable writes of
		// globals and reads of string-valued parts remain.
		switch c.name {
		case "GS":
			if w {
				// only the whole-variable write remains
				g.emit("GS = %s", g.wholeStruct())
				g.feat("global-struct")
				g.feat("global-struct-whole-write")
				return
			}
		case "GP", "GM", "GA":
			if w {
				g.prog.Excluded++
				w = false
			}
		case "GL":
			if w {
				g.prog.Excluded++
				g.emit("GL = %s", g.expr(TSlice, 1))
				g.feat("global-slice")
				return
			}
		}
		if !w {
			switch c.name {
			case "GP":
				g.newVar(TStr, "GP."+[]string{"A", "B"}[g.intn(2, "gpf")])
				return
			case "GL":
				g.newVar(TStr, "GL[0]")
				return
			case "GPP":
				g.newVar(TStr, "*GPP")
				return
			}
		}
	}
	switch c.name {
	case "G0", "GX", "GF", "GPP":
		if w {
			g.emit("%s = %s", c.name, g.expr(c.t, 1))
		} else if c.name == "GF" {
			g.newVar(TStr, "GF("+g.expr(TStr, 1)+")")
		} else {
			g.newVar(c.t, c.name)
		}
	case "GP":
		if w {
			if g.chance(30, "gpwhole") {
				g.emit("GP = %s", g.expr(TPS, 1))
			} else {
				g.emit("GP.%s = %s", []string{"A", "B"}[g.intn(2, "gpf")], g.expr(TStr, 1))
			}
		} else {
			if g.chance(50, "gpr") {
				g.newVar(TStr, "GP."+[]string{"A", "B"}[g.intn(2, "gpf")])
			} else {
				g.newVar(TPS, "GP")
			}
		}
		g.feat("global-struct-ptr")
	case "GS":
		if w && g.chance(40, "gswhole") {
			g.emit("GS = %s", g.wholeStruct())
			g.feat("global-struct-whole-write")
		} else if w {
			g.emit("GS.%s = %s", []string{"A", "B"}[g.intn(2, "gsf")], g.expr(TStr, 1))
		} else {
			g.newVar(TStr, "GS."+[]string{"A", "B"}[g.intn(2, "gsf")])
		}
		g.feat("global-struct")
	case "GL":
		if w {
			switch g.intn(3, "glw") {
			case 0:
				g.emit("GL[0] = %s", g.expr(TStr, 1))
			case 1:
				g.emit("GL = append(GL, %s)", g.expr(TStr, 1))
			default:
				g.emit("GL = %s", g.expr(TSlice, 1))
			}
		} else {
			if g.chance(50, "glr") {
				g.newVar(TStr, "GL[0]")
			} else {
				g.newVar(TSlice, "GL")
			}
		}
		g.feat("global-slice")
	case "GM":
		if w {
			g.emit("GM[\"k\"] = %s", g.expr(TStr, 1))
		} else {
			g.newVar(TStr, "GM[\"k\"]")
		}
		g.feat("global-map")
	case "GA":
		if w {
			g.emit("GA[%d] = %s", g.intn(2, "gai"), g.expr(TStr, 1))
		} else {
			g.newVar(TStr, fmt.Sprintf("GA[%d]", g.intn(2, "gai")))
		}
		g.feat("global-array")
	}
}

func (g *gen) returnStmt() {
	if len(g.results) == 0 {
		g.emit("return")
		return
	}
	var es []string
	for _, r := range g.results {
		es = append(es, g.expr(r, 1))
	}
	g.emit("return %s", strings.Join(es, ", "))
}

// goStmt launches a goroutine: a closure sharing the variables in scope, or a helper called with shared arguments.
// Every goroutine body is bracketed by gstart()/gdone() so that the native main can wait for all of them.
func (g *gen) goStmt() {
	if !g.p.Go || g.closureDepth >= 2 || g.inDefer {
		return
	}
	g.feat("go")
	if g.closureDepth == 0 && g.chance(15, "loopshare") {
		// an object that becomes shared inside a loop: the loop header (condition) and the first statement of the body
		// access it in every iteration, before and after the iteration that hands it to a goroutine
		g.feat("go-shares-in-loop")
		o, i := g.fresh(), g.fresh()
		g.emit("%s := newS(%q)", o, "c"+o)
		g.declare(o, TPS)
		g.emit("for %s := 0; %s.B != \"stop\" && %s < 3; %s++ {", i, o, i, i)
		g.indent++
		g.emit("%s.A = %s", o, g.expr(TStr, 1))
		g.emit("gstart()")
		g.emit("go func() {")
		g.indent++
		g.emit("defer gdone()")
		switch g.intn(3, "loopsharew") {
		case 0:
			g.emit("%s.B = %s", o, g.expr(TStr, 1))
		case 1:
			g.emit("%s.A = %s.B", o, o)
		default:
			g.emit("%s.L[0] = %s.A", o, o)
		}
		g.indent--
		g.emit("}()")
		g.emit("yield()")
		g.indent--
		g.emit("}")
		return
	}
	cs := g.callees()
	if len(cs) > 0 && g.chance(35, "gocallee") {
		f := cs[g.intn(len(cs), "gocallee2")]
		call := g.callExpr(f)
		g.emit("gstart()")
		g.emit("go func() {")
		g.emit("\tdefer gdone()")
		g.emit("\t%s", call)
		g.emit("}()")
		g.feat("go-helper-call")
		return
	}
	g.emit("gstart()")
	g.emit("go func() {")
	g.indent++
	g.emit("defer gdone()")
	g.closureDepth++
	g.block(1 + g.intn(4, "gon"))
	g.closureDepth--
	g.indent--
	g.emit("}()")
	g.feat("go-closure")
	if g.chance(40, "yield") {
		g.emit("yield()")
	}
}

// wholeStruct returns a struct value for a whole-variable write of the global struct GS.
func (g *gen) wholeStruct() string {
	if v, ok := g.pickVar(TPS, "gsfrom"); ok && g.chance(50, "gsderef") {
		return "*" + v.name
	}
	return g.structLit(1)
}

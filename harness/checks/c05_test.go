package checks

import (
	"fmt"
	"os"
	"path/filepath"
	"sort"
	"strings"
	"testing"
	"time"

	"github.com/awslabs/ar-go-tools/analysis/config"
	"github.com/awslabs/ar-go-tools/verifharness/core"
	"github.com/awslabs/ar-go-tools/verifharness/gogen"
	"gopkg.in/yaml.v3"
	"pgregory.net/rapid"
)

// C05: options documented as soundness-neutral do not change the set of reported (source, sink) pairs; max-alarms=k
// yields a subset of at most k pairs, non-empty iff the unlimited result is non-empty.

type optVector struct {
	OnDemand  bool
	PkgFilter string
	Summaries bool
	Paths     bool
	Coverage  bool
	NoCallee  bool
	CovFilter string
	LogLevel  int
	MaxAlarms int
}

func (o optVector) String() string {
	return fmt.Sprintf("ondemand=%v pkgfilter=%q summaries=%v paths=%v coverage=%v nocallee=%v covfilter=%q log=%d maxalarms=%d",
		o.OnDemand, o.PkgFilter, o.Summaries, o.Paths, o.Coverage, o.NoCallee, o.CovFilter, o.LogLevel, o.MaxAlarms)
}

func (o optVector) options(reportsDir string) map[string]any {
	m := map[string]any{"log-level": o.LogLevel}
	if o.OnDemand {
		m["summarize-on-demand"] = true
	}
	if o.PkgFilter != "" {
		m["pkg-filter"] = o.PkgFilter
	}
	if o.Summaries {
		m["report-summaries"] = true
	}
	if o.Paths {
		m["report-paths"] = true
	}
	if o.Coverage {
		m["report-coverage"] = true
	}
	if o.NoCallee {
		m["report-no-callee-sites"] = true
	}
	if o.CovFilter != "" {
		m["coverage-filter"] = o.CovFilter
	}
	if o.MaxAlarms != 0 {
		m["max-alarms"] = o.MaxAlarms
	}
	if o.Summaries || o.Paths || o.Coverage || o.NoCallee {
		m["reports-dir"] = reportsDir
	}
	return m
}

func genOptVector(t *rapid.T, importFree bool) optVector {
	filters := []string{"", "command-line-arguments", "nomatch", "(unclosed", "main"}
	if importFree {
		filters = append(filters, ".*", "^comm")
	}
	o := optVector{
		OnDemand:  gogen.Uniform(t, 2, "od") == 1,
		PkgFilter: filters[gogen.Uniform(t, len(filters), "pf")],
		Summaries: gogen.Uniform(t, 4, "rs") == 0,
		Paths:     gogen.Uniform(t, 3, "rp") == 0,
		Coverage:  gogen.Uniform(t, 3, "rc") == 0,
		NoCallee:  gogen.Uniform(t, 3, "rn") == 0,
		CovFilter: []string{"", "main", ".*"}[gogen.Uniform(t, 3, "cf")],
		LogLevel:  1 + gogen.Uniform(t, 4, "ll"),
		MaxAlarms: []int{0, 0, 0, 1, 2, 3, 10, -1}[gogen.Uniform(t, 8, "ma")],
	}
	return o
}

// mergeOptions returns the YAML text of base with the keys of opts set in its options block.
func mergeOptions(baseYAML string, opts map[string]any) string {
	var doc map[string]any
	if err := yaml.Unmarshal([]byte(baseYAML), &doc); err != nil {
		panic(err)
	}
	if doc == nil {
		doc = map[string]any{}
	}
	om, _ := doc["options"].(map[string]any)
	if om == nil {
		om = map[string]any{}
	}
	for k, v := range opts {
		om[k] = v
	}
	doc["options"] = om
	b, err := yaml.Marshal(doc)
	if err != nil {
		panic(err)
	}
	return string(b)
}

func pairSetString(m map[core.Pair]bool) []string {
	var l []string
	for p := range m {
		l = append(l, p.String())
	}
	sort.Strings(l)
	return l
}

// c05Compare judges a variant result against the unlimited baseline.
func c05Compare(base, got map[core.Pair]bool, o optVector) string {
	if o.MaxAlarms <= 0 {
		var missing, extra []string
		for p := range base {
			if !got[p] {
				missing = append(missing, p.String())
			}
		}
		for p := range got {
			if !base[p] {
				extra = append(extra, p.String())
			}
		}
		if len(missing)+len(extra) > 0 {
			sort.Strings(missing)
			sort.Strings(extra)
			return fmt.Sprintf("result differs from the default configuration under [%s]: missing %v extra %v", o, missing, extra)
		}
		return ""
	}
	for p := range got {
		if !base[p] {
			return fmt.Sprintf("max-alarms=%d result contains %s which is not in the unlimited result", o.MaxAlarms, p)
		}
	}
	if len(got) > o.MaxAlarms {
		return fmt.Sprintf("max-alarms=%d but %d pairs reported", o.MaxAlarms, len(got))
	}
	if len(base) > 0 && len(got) == 0 {
		return fmt.Sprintf("max-alarms=%d result is empty although the unlimited result has %d pairs", o.MaxAlarms, len(base))
	}
	return ""
}

func TestC05(t *testing.T) {
	rec := core.NewRecorder("C05", env, "cases = (program, option vector): generated import-free flow programs and the repository's taint "+
		"testdata programs (multi-file, standard library) analysed under the default options and under drawn vectors of "+
		"{summarize-on-demand, pkg-filter, report-summaries/paths/coverage/no-callee-sites, coverage-filter, log-level, max-alarms}; "+
		"oracle: equal pair sets (max-alarms<=0) or subset/size/non-emptiness law (max-alarms=k); non-trivial = baseline has >= 2 pairs "+
		"and the vector changes on-demand, pkg-filter or max-alarms; distinct = hash(program, vector)")
	defer rec.Flush()
	replayKnown(t, "C05")
	worker := core.NewWorker(env.Root)
	defer worker.Close()
	reports := filepath.Join(env.Out, fmt.Sprintf("reports-%d", env.Shard))
	off := excluded()
	nvec := 4
	rapidSetup(env.Pick(500, 5000), 5)
	rapid.Check(t, func(rt *rapid.T) {
		prog := gogen.Generate(rt, gogen.FlowProfile(off))
		files := map[string]string{"main.go": prog.Main, "prelude.go": gogen.AnalysedPrelude}
		// the taint problem itself may ask for implicit flows to be failures: the laws hold for every problem
		implicit := gogen.Uniform(rt, 3, "fail-on-implicit-flow") == 0
		baseYAML := core.TaintOpts{ImplicitFail: implicit}.YAML()
		if implicit {
			rec.Count("programs_with_fail_on_implicit_flow", 1)
		}
		base, over, err := worker.Taint(files, baseYAML, analysisBudget())
		if err != nil || over || base.Panic != "" || base.Err != nil {
			rec.Count("baseline_inconclusive", 1)
			return
		}
		for k := 0; k < nvec; k++ {
			o := genOptVector(rt, true)
			_ = os.RemoveAll(reports)
			y := mergeOptions(baseYAML, o.options(reports))
			got, over, err := worker.Taint(files, y, analysisBudget())
			h := core.Hash(prog.Main, o.String())
			nt := len(base.Pairs) >= 2 && (o.OnDemand || o.PkgFilter != "" || o.MaxAlarms > 0)
			rec.Case(h, nt, append([]string{fmt.Sprintf("maxalarms:%d", o.MaxAlarms), fmt.Sprintf("ondemand:%v", o.OnDemand), "pkgfilter:" + o.PkgFilter}, "generated"),
				func() any {
					return map[string]any{"program_from_first_function": core.Truncate(afterDecls(prog.Main), 40), "vector": o.String(), "baseline_pairs": pairSetString(base.Pairs)}
				})
			if died, ok := err.(*core.ErrWorkerDied); ok {
				msg := env.Report(core.Violation{ID: "C05", Signature: "crash", What: "analysis killed the process under [" + o.String() + "]: " + oneLine(lastN(died.Stderr, 1200)),
					Files: c05Files(files, y, o, base.Pairs), Kind: "c05"})
				rt.Fatalf("%s", msg)
			}
			if err != nil {
				rt.Fatalf("HARNESS worker: %v", err)
			}
			if over {
				rec.Count("variant_over_budget", 1)
				continue
			}
			if got.Panic != "" {
				msg := env.Report(core.Violation{ID: "C05", Signature: "panic-" + panicSite(got.Panic), What: "analysis panicked under [" + o.String() + "]: " + oneLine(got.Panic),
					Files: c05Files(files, y, o, base.Pairs), Kind: "c05"})
				rt.Fatalf("%s", msg)
			}
			if got.Err != nil {
				rec.Count("variant_failed_loudly", 1)
				continue
			}
			if res := c05Compare(base.Pairs, got.Pairs, o); res != "" {
				sig := "differs"
				if o.MaxAlarms > 0 {
					sig = "maxalarms"
				} else if o.OnDemand {
					sig = "ondemand-differs"
				}
				msg := env.Report(core.Violation{ID: "C05", Signature: sig, What: res, Files: c05Files(files, y, o, base.Pairs), Kind: "c05"})
				rt.Fatalf("%s", msg)
			}
		}
	})
	_ = os.RemoveAll(reports)
	if t.Failed() {
		return
	}
	c05Testdata(t, rec, reports)
}

func c05Files(files map[string]string, variantYAML string, o optVector, base map[core.Pair]bool) map[string]string {
	return c05FilesBase(files, variantYAML, core.TaintOpts{ImplicitFail: strings.Contains(variantYAML, "fail-on-implicit-flow: true")}.YAML(), o, base)
}

func c05FilesBase(files map[string]string, variantYAML, baseYAML string, o optVector, base map[core.Pair]bool) map[string]string {
	out := map[string]string{}
	for k, v := range files {
		out[k] = v
	}
	out["variant-config.yaml"] = variantYAML
	out["baseline-config.yaml"] = baseYAML
	out["vector.txt"] = fmt.Sprintf("%d\n%s\n", o.MaxAlarms, o.String())
	return out
}

func c05Replay(dir string) string {
	files := map[string]string{}
	for _, n := range []string{"main.go", "prelude.go"} {
		b, err := os.ReadFile(filepath.Join(dir, n))
		if err != nil {
			return "HARNESS cannot read " + n
		}
		files[n] = string(b)
	}
	vy, _ := os.ReadFile(filepath.Join(dir, "variant-config.yaml"))
	by, _ := os.ReadFile(filepath.Join(dir, "baseline-config.yaml"))
	vt, _ := os.ReadFile(filepath.Join(dir, "vector.txt"))
	var o optVector
	_, _ = fmt.Sscan(string(vt), &o.MaxAlarms)
	worker := core.NewWorker(env.Root)
	defer worker.Close()
	for rep := 0; rep < 6; rep++ {
		base, over, err := worker.Taint(files, string(by), 2*analysisBudget())
		if err != nil || over || base.Panic != "" || base.Err != nil {
			return ""
		}
		got, over, err := worker.Taint(files, string(vy), 2*analysisBudget())
		if _, ok := err.(*core.ErrWorkerDied); ok {
			return "analysis killed the process"
		}
		if err != nil || over {
			return ""
		}
		if got.Panic != "" {
			return "analysis panicked: " + oneLine(got.Panic)
		}
		if got.Err != nil {
			continue
		}
		if res := c05Compare(base.Pairs, got.Pairs, o); res != "" {
			return res
		}
	}
	return ""
}

func init() { replayers["c05"] = c05Replay }

// testdataPrograms lists the repository's taint testdata directories that have a config.yaml and a main.go.
func testdataPrograms() []string {
	root := filepath.Join(env.Repo, "analysis", "taint", "testdata")
	ents, _ := os.ReadDir(root)
	var out []string
	for _, e := range ents {
		if !e.IsDir() {
			continue
		}
		d := filepath.Join(root, e.Name())
		if _, err := os.Stat(filepath.Join(d, "config.yaml")); err != nil {
			continue
		}
		if _, err := os.Stat(filepath.Join(d, "main.go")); err != nil {
			continue
		}
		out = append(out, d)
	}
	sort.Strings(out)
	return out
}

func goFilesOf(dir string) []string {
	ms, _ := filepath.Glob(filepath.Join(dir, "*.go"))
	var out []string
	for _, m := range ms {
		if !strings.HasSuffix(m, "_test.go") {
			out = append(out, filepath.Base(m))
		}
	}
	return out
}

// c05Testdata applies the same relation to the repository's own test programs (they use the standard library).
func c05Testdata(t *testing.T, rec *core.Recorder, reports string) {
	progs := testdataPrograms()
	// skip the programs that take very long under every configuration
	skip := map[string]bool{"benchmark": true, "agent-example": true, "stdlib": true, "stdlib_121": true, "stdlib-no-effect-constraint": true}
	nvec := 2
	if env.Thorough() {
		nvec = 6
	}
	idx := 0
	for _, dir := range progs {
		name := filepath.Base(dir)
		if skip[name] && !env.Thorough() {
			continue
		}
		idx++
		if idx%env.Shards != env.Shard {
			continue
		}
		cfgText, err := os.ReadFile(filepath.Join(dir, "config.yaml"))
		if err != nil {
			continue
		}
		l, err := core.LoadDisk(dir, goFilesOf(dir), true)
		if err != nil {
			rec.Count("testdata_load_failed", 1)
			continue
		}
		run := func(yamlText string) *core.TaintOutcome {
			cfg, err := config.Load(filepath.Join(dir, "config.yaml"), []byte(yamlText))
			if err != nil {
				return nil
			}
			return core.RunTaintBudget(cfg, l, 5*time.Minute)
		}
		baseYAML := mergeOptions(string(cfgText), map[string]any{"log-level": 1, "summarize-on-demand": false, "max-alarms": 0})
		base := run(baseYAML)
		if base == nil || base.Panic != "" || base.Err != nil {
			rec.Count("testdata_baseline_inconclusive", 1)
			continue
		}
		rapidSetup(nvec, 500+idx)
		rapid.Check(t, func(rt *rapid.T) {
			o := genOptVector(rt, false)
			o.LogLevel = 1 + o.LogLevel%2
			_ = os.RemoveAll(reports)
			y := mergeOptions(string(cfgText), o.options(reports))
			got := run(y)
			nt := len(base.Pairs) >= 2 && (o.OnDemand || o.PkgFilter != "" || o.MaxAlarms > 0)
			rec.Case(core.Hash(name, o.String()), nt, []string{"testdata:" + name, fmt.Sprintf("maxalarms:%d", o.MaxAlarms), fmt.Sprintf("ondemand:%v", o.OnDemand)},
				func() any {
					return map[string]any{"testdata": name, "vector": o.String(), "baseline_pairs": len(base.Pairs)}
				})
			if got == nil {
				rec.Count("variant_over_budget", 1)
				return
			}
			if got.Panic != "" {
				msg := env.Report(core.Violation{ID: "C05", Signature: "testdata-panic-" + panicSite(got.Panic),
					What:  "analysis of testdata/" + name + " panicked under [" + o.String() + "]: " + oneLine(got.Panic),
					Files: map[string]string{"testdata.txt": dir + "\n", "variant-config.yaml": y, "vector.txt": fmt.Sprintf("%d\n%s\n", o.MaxAlarms, o)}, Kind: "c05-testdata"})
				rt.Fatalf("%s", msg)
			}
			if got.Err != nil {
				rec.Count("variant_failed_loudly", 1)
				return
			}
			if res := c05Compare(base.Pairs, got.Pairs, o); res != "" {
				msg := env.Report(core.Violation{ID: "C05", Signature: "testdata-differs", What: "testdata/" + name + ": " + res,
					Files: map[string]string{"testdata.txt": dir + "\n", "variant-config.yaml": y, "vector.txt": fmt.Sprintf("%d\n%s\n", o.MaxAlarms, o)}, Kind: "c05-testdata"})
				rt.Fatalf("%s", msg)
			}
		})
		_ = os.RemoveAll(reports)
		if t.Failed() {
			return
		}
	}
}

func init() {
	replayers["c05-testdata"] = func(dir string) string {
		tb, _ := os.ReadFile(filepath.Join(dir, "testdata.txt"))
		td := strings.TrimSpace(string(tb))
		// the stored path may come from another checkout: re-root it under the current repository
		if i := strings.Index(td, "/analysis/taint/testdata/"); i >= 0 {
			td = env.Repo + td[i:]
		}
		vy, _ := os.ReadFile(filepath.Join(dir, "variant-config.yaml"))
		vt, _ := os.ReadFile(filepath.Join(dir, "vector.txt"))
		var o optVector
		_, _ = fmt.Sscan(string(vt), &o.MaxAlarms)
		cfgText, err := os.ReadFile(filepath.Join(td, "config.yaml"))
		if err != nil {
			return "HARNESS cannot read testdata config"
		}
		l, err := core.LoadDisk(td, goFilesOf(td), true)
		if err != nil {
			return "HARNESS load: " + err.Error()
		}
		run := func(y string) *core.TaintOutcome {
			cfg, err := config.Load(filepath.Join(td, "config.yaml"), []byte(y))
			if err != nil {
				return nil
			}
			return core.RunTaintBudget(cfg, l, 10*time.Minute)
		}
		base := run(mergeOptions(string(cfgText), map[string]any{"log-level": 1, "summarize-on-demand": false, "max-alarms": 0}))
		got := run(string(vy))
		if base == nil || got == nil || base.Err != nil || got.Err != nil || base.Panic != "" {
			return ""
		}
		if got.Panic != "" {
			return "analysis panicked: " + oneLine(got.Panic)
		}
		return c05Compare(base.Pairs, got.Pairs, o)
	}
}

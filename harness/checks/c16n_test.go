package checks

import (
	"fmt"
	"os"
	"os/exec"
	"path/filepath"
	"regexp"
	"sort"
	"strconv"
	"strings"
	"time"

	"github.com/awslabs/ar-go-tools/analysis/config"
	"github.com/awslabs/ar-go-tools/analysis/defers"
	"github.com/awslabs/ar-go-tools/verifharness/core"
	"golang.org/x/tools/go/ssa"
)

// C16, execution half: the generated bodies are also RUN. Every `return` (and the end of the body) is preceded by a
// marker call exit(E); deferred calls log their number. A run that leaves the function normally yields (exit E, the
// deferred calls in the order they ran); reversed, that is the stack of defer statements the execution pushed. The stack
// must be a member of the set the tool reports for the RunDefers of that exit when the function is reported bounded,
// and a run that pushes the same defer statement twice obliges the tool to report the function unbounded. This oracle
// does not use the harness' own CFG enumeration (it guards against a mistake common to the model and the tool).

const c16NativePrelude = `package main

import (
	"bufio"
	"fmt"
	"os"
)

var fuel int
var rng uint64
var lg []int

func next() uint64 {
	rng = rng*6364136223846793005 + 1442695040888963407
	return rng >> 33
}
func c(i int) bool {
	if fuel <= 0 {
		return false
	}
	fuel--
	return next()&1 == 1
}
func n() int {
	if fuel <= 0 {
		return 0
	}
	fuel--
	return int(next() % 3)
}
func d(i int)    { lg = append(lg, i) }
func nop()       {}
func exit(k int) { lg = append(lg, -k) }

func run1(f func(), seed uint64) (ok bool) {
	defer func() {
		if recover() != nil {
			ok = false
		}
	}()
	lg = lg[:0]
	fuel = 48
	rng = seed
	f()
	return true
}

func main() {
	w := bufio.NewWriter(os.Stdout)
	defer w.Flush()
	var v int
	fmt.Sscan(os.Args[1], &v)
	for i, f := range fs {
		for s := 1; s <= v; s++ {
			if run1(f, uint64(i*7919+s)*2654435761) {
				fmt.Fprintln(w, i, lg)
			}
		}
	}
}

`

const c16AnalysedPrelude = `package main

var opaque [64]bool
var k int

func c(i int) bool { return opaque[i%64] }
func n() int       { return k }
func d(i int)      {}
func nop()         {}
func exit(k int)   {}

func main() {}

`

var c16ReturnLine = regexp.MustCompile(`(?m)^(\t+)return$`)

// c16Instrument turns a generated program (prelude + func f) into the text of one function f<idx> with exit markers.
func c16Instrument(src string, idx int) string {
	body := strings.TrimPrefix(src, c16Prelude)
	body = strings.Replace(body, "func f() {", fmt.Sprintf("func f%d() {", idx), 1)
	e := 0
	body = c16ReturnLine.ReplaceAllStringFunc(body, func(m string) string {
		e++
		tabs := strings.TrimSuffix(m, "return")
		return fmt.Sprintf("%sexit(%d); return", tabs, e)
	})
	e++
	k := strings.LastIndex(body, "}")
	body = body[:k] + fmt.Sprintf("\texit(%d)\n}\n", e)
	return body
}

type c16nStats struct {
	functions, runs, normalExits, judged, multiPush, nontrivial int
}

func constInt(v ssa.Value) (int, bool) {
	c, ok := v.(*ssa.Const)
	if !ok || c.Value == nil {
		return 0, false
	}
	n, err := strconv.Atoi(c.Value.ExactString())
	return n, err == nil
}

// c16DeferNumber returns the number K of the d(K) call a defer instruction defers (directly or inside a closure).
func c16DeferNumber(df *ssa.Defer) (int, bool) {
	if f, ok := df.Call.Value.(*ssa.Function); ok && f.Name() == "d" && len(df.Call.Args) == 1 {
		return constInt(df.Call.Args[0])
	}
	var fn *ssa.Function
	switch x := df.Call.Value.(type) {
	case *ssa.MakeClosure:
		fn, _ = x.Fn.(*ssa.Function)
	case *ssa.Function:
		fn = x
	}
	if fn == nil {
		return 0, false
	}
	for _, b := range fn.Blocks {
		for _, i := range b.Instrs {
			if c, ok := i.(*ssa.Call); ok {
				if f, ok := c.Call.Value.(*ssa.Function); ok && f.Name() == "d" && len(c.Call.Args) == 1 {
					return constInt(c.Call.Args[0])
				}
			}
		}
	}
	return 0, false
}

// c16Native judges the bodies against native executions. Returns a violation text and the offending source.
func c16Native(srcs []string, valuations int, st *c16nStats) (string, string, error) {
	if len(srcs) == 0 {
		return "", "", nil
	}
	var an, nat strings.Builder
	an.WriteString(c16AnalysedPrelude)
	nat.WriteString(c16NativePrelude)
	var bodies []string
	for i, s := range srcs {
		b := c16Instrument(s, i)
		bodies = append(bodies, b)
		an.WriteString(b + "\n")
		nat.WriteString(b + "\n")
	}
	nat.WriteString("var fs = []func(){")
	for i := range srcs {
		fmt.Fprintf(&nat, "f%d, ", i)
	}
	nat.WriteString("}\n")
	dir, err := os.MkdirTemp(env.Out, "c16native-")
	if err != nil {
		return "", "", err
	}
	defer os.RemoveAll(dir)
	if err := os.WriteFile(filepath.Join(dir, "main.go"), []byte(nat.String()), 0o644); err != nil {
		return "", "", err
	}
	_ = os.WriteFile(filepath.Join(dir, "go.mod"), []byte("module c16native\n\ngo 1.22\n"), 0o644)
	bin := filepath.Join(dir, "c16bin")
	cmd := exec.Command("go", "build", "-p", "2", "-o", bin, ".")
	cmd.Dir = dir
	cmd.Env = append(os.Environ(), "GOFLAGS=-mod=mod", "GOPROXY=off", "GOSUMDB=off", "GOTOOLCHAIN=local")
	if out, err := cmd.CombinedOutput(); err != nil {
		return "", "", fmt.Errorf("native build of the C16 bodies failed: %v\n%s", err, core.Truncate(string(out), 30))
	}
	run := exec.Command(bin, fmt.Sprint(valuations))
	run.Dir = dir
	done := make(chan struct{})
	var out []byte
	var rerr error
	go func() { out, rerr = run.Output(); close(done) }()
	select {
	case <-done:
	case <-time.After(10 * time.Minute):
		_ = run.Process.Kill()
		return "", "", fmt.Errorf("native run of the C16 bodies did not finish")
	}
	if rerr != nil {
		return "", "", fmt.Errorf("native run of the C16 bodies failed: %v", rerr)
	}
	// observed: function index -> set of "E|k1 k2 ..." (execution order of the deferred calls)
	obs := map[int]map[string]bool{}
	for _, line := range strings.Split(string(out), "\n") {
		line = strings.TrimSpace(line)
		if line == "" {
			continue
		}
		sp := strings.SplitN(line, " ", 2)
		fi, err := strconv.Atoi(sp[0])
		if err != nil || len(sp) < 2 {
			continue
		}
		st.runs++
		if obs[fi] == nil {
			obs[fi] = map[string]bool{}
		}
		obs[fi][strings.Trim(sp[1], "[]")] = true
	}
	l, err := core.LoadSource(map[string]string{"main.go": an.String()})
	if err != nil {
		return "", "", fmt.Errorf("instrumented C16 bodies do not build: %v", err)
	}
	lgr := config.NewLogGroup(config.NewDefault())
	for i := range srcs {
		fn := l.Main.Func(fmt.Sprintf("f%d", i))
		if fn == nil {
			continue
		}
		st.functions++
		var res defers.Results
		pan := ""
		func() {
			defer func() {
				if r := recover(); r != nil {
					pan = fmt.Sprint(r)
				}
			}()
			res = defers.AnalyzeFunction(fn, lgr)
		}()
		if pan != "" {
			return "defer analysis panicked: " + pan, srcs[i], nil
		}
		deferOf := map[int]defers.InstrIndices{}
		exitOf := map[int]*ssa.RunDefers{}
		for _, b := range fn.Blocks {
			for k, ins := range b.Instrs {
				switch x := ins.(type) {
				case *ssa.Defer:
					if n, ok := c16DeferNumber(x); ok {
						deferOf[n] = defers.InstrIndices{Block: b.Index, Ins: k}
					}
				case *ssa.Call:
					if f, ok := x.Call.Value.(*ssa.Function); ok && f.Name() == "exit" && len(x.Call.Args) == 1 {
						if e, ok := constInt(x.Call.Args[0]); ok {
							for _, later := range b.Instrs[k+1:] {
								if rd, ok := later.(*ssa.RunDefers); ok {
									exitOf[e] = rd
									break
								}
								if _, isCall := later.(ssa.CallInstruction); isCall {
									break
								}
							}
						}
					}
				}
			}
		}
		var keys []string
		for o := range obs[i] {
			keys = append(keys, o)
		}
		sort.Strings(keys)
		nontrivial := false
		for _, o := range keys {
			f := strings.Fields(o)
			if len(f) == 0 {
				continue
			}
			e, err := strconv.Atoi(f[0])
			if err != nil || e >= 0 {
				continue // a deferred call ran before any exit marker: not a normal exit we can attribute
			}
			e = -e
			st.normalExits++
			var push defers.Stack
			seen := map[int]bool{}
			twice := false
			okMap := true
			for k := len(f) - 1; k >= 1; k-- {
				n, err := strconv.Atoi(f[k])
				if err != nil || n < 0 {
					okMap = false
					break
				}
				if seen[n] {
					twice = true
				}
				seen[n] = true
				ii, ok := deferOf[n]
				if !ok {
					okMap = false
					break
				}
				push = append(push, ii)
			}
			if !okMap {
				continue
			}
			srcOne := srcs[i]
			if twice {
				st.multiPush++
				if res.DeferStackBounded {
					return fmt.Sprintf("an execution ran the deferred calls %v (a defer statement executed twice before exit %d), but the tool reports the defer stack as bounded", f[1:], e), srcOne, nil
				}
				continue
			}
			if !res.DeferStackBounded {
				continue
			}
			rd := exitOf[e]
			if rd == nil {
				continue
			}
			st.judged++
			if len(push) >= 2 {
				nontrivial = true
			}
			found := false
			for _, s := range res.RunDeferSets[rd] {
				if stackKey(s) == stackKey(push) {
					found = true
					break
				}
			}
			if !found {
				var gl []string
				for _, s := range res.RunDeferSets[rd] {
					gl = append(gl, stackKey(s))
				}
				return fmt.Sprintf("an execution left through exit %d after pushing the defer stack [%s] (deferred calls ran as %v), but the tool reports {%s} for that exit",
					e, stackKey(push), f[1:], strings.Join(gl, " | ")), srcOne, nil
			}
		}
		if nontrivial {
			st.nontrivial++
		}
	}
	return "", "", nil
}

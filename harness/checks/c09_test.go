package checks

import (
	"encoding/json"
	"fmt"
	"go/types"
	"os"
	"path/filepath"
	"sort"
	"strings"
	"testing"
	"time"

	"github.com/awslabs/ar-go-tools/analysis/config"
	"github.com/awslabs/ar-go-tools/analysis/summaries"
	"github.com/awslabs/ar-go-tools/verifharness/core"
	"github.com/awslabs/ar-go-tools/verifharness/gogen"
	"github.com/awslabs/ar-go-tools/verifharness/native"
	"golang.org/x/tools/go/ssa"
	"golang.org/x/tools/go/ssa/ssautil"
	"pgregory.net/rapid"
)

// C09: the predefined standard-library summaries over-approximate the real functions.
// (a) conformance audit of every table entry that resolves against the installed standard library (reported in the
//     evidence; a position that does not exist in the function's signature is silently dropped by the tool);
// (b) ground truth: one-call programs executed natively - the marker put into an argument and found in an output must
//     be reported as a flow by the taint analysis that uses the table.

// c09Template is one use of a standard-library function. Code uses X for the marker-carrying string and must assign
// the observed output to R (any type); it may span several statements separated by "; ".
type c09Template struct {
	Imports []string
	Code    string
	Entry   string // table key(s) exercised, for the evidence
}

var c09Templates = []c09Template{
	{[]string{"strings"}, `R := strings.ToUpper(X)`, "strings.ToUpper"},
	{[]string{"strings"}, `R := strings.TrimSpace(X)`, "strings.TrimSpace"},
	{[]string{"strings"}, `R := strings.Trim(X, " ")`, "strings.Trim"},
	{[]string{"strings"}, `R := strings.TrimPrefix(X, "zz")`, "strings.TrimPrefix"},
	{[]string{"strings"}, `R := strings.TrimSuffix(X, "zz")`, "strings.TrimSuffix"},
	{[]string{"strings"}, `R := strings.Repeat(X, 2)`, "strings.Repeat"},
	{[]string{"strings"}, `R := strings.Replace("a-b", "-", X, 1)`, "strings.Replace (new)"},
	{[]string{"strings"}, `R := strings.Replace(X, "q", "r", 1)`, "strings.Replace (s)"},
	{[]string{"strings"}, `R := strings.ReplaceAll("a-b", "-", X)`, "strings.ReplaceAll (new)"},
	{[]string{"strings"}, `R := strings.Split(X, ",")`, "strings.Split"},
	{[]string{"strings"}, `R := strings.SplitN(X, ",", 2)`, "strings.SplitN"},
	{[]string{"strings"}, `R := strings.Fields(X)`, "strings.Fields"},
	{[]string{"strings"}, `R := strings.Join([]string{"a", X}, ",")`, "strings.Join (elems)"},
	{[]string{"strings"}, `R := strings.Join([]string{"a", "b"}, X)`, "strings.Join (sep)"},
	{[]string{"strings"}, `R := strings.Map(func(r rune) rune { return r }, X)`, "strings.Map"},
	{[]string{"strings"}, `R := strings.Clone(X)`, "strings.Clone"},
	{[]string{"strings"}, `R := strings.ToValidUTF8(X, "?")`, "strings.ToValidUTF8"},
	{[]string{"strings"}, `var sb strings.Builder; sb.WriteString(X); R := sb.String()`, "strings.Builder.WriteString/String"},
	{[]string{"strings", "io"}, `rd := strings.NewReader(X); bs, _ := io.ReadAll(rd); R := string(bs)`, "strings.NewReader, io.ReadAll"},
	{[]string{"strings"}, `rp := strings.NewReplacer("q", "r"); R := rp.Replace(X)`, "strings.Replacer.Replace"},
	{[]string{"strings"}, `_, R, _ := strings.Cut(X, "@@")`, "strings.Cut"},
	{[]string{"strings"}, `R, _, _ := strings.Cut(X, "@@")`, "strings.Cut (before)"},
	{[]string{"fmt"}, `R := fmt.Sprintf("%s!", X)`, "fmt.Sprintf (arg)"},
	{[]string{"fmt"}, `R := fmt.Sprintf(X+"%d", 1)`, "fmt.Sprintf (format)"},
	{[]string{"fmt"}, `R := fmt.Sprint("a", X)`, "fmt.Sprint"},
	{[]string{"fmt"}, `R := fmt.Sprintln(X)`, "fmt.Sprintln"},
	{[]string{"fmt"}, `R := fmt.Errorf("e: %s", X)`, "fmt.Errorf"},
	{[]string{"fmt"}, `e := fmt.Errorf("e: %s", X); R := e.Error()`, "fmt.Errorf, error.Error"},
	{[]string{"fmt", "bytes"}, `var bb bytes.Buffer; fmt.Fprintf(&bb, "%s", X); R := bb.String()`, "fmt.Fprintf, bytes.Buffer.String"},
	{[]string{"fmt", "strings"}, `var sb2 strings.Builder; fmt.Fprint(&sb2, X); R := sb2.String()`, "fmt.Fprint"},
	{[]string{"errors"}, `R := errors.New(X)`, "errors.New"},
	{[]string{"errors"}, `e2 := errors.New(X); R := e2.Error()`, "errors.New, error.Error"},
	{[]string{"bytes"}, `R := bytes.NewBufferString(X).String()`, "bytes.NewBufferString"},
	{[]string{"bytes"}, `var b3 bytes.Buffer; b3.WriteString(X); R := b3.Bytes()`, "bytes.Buffer.WriteString/Bytes"},
	{[]string{"bytes"}, `var b4 bytes.Buffer; b4.Write([]byte(X)); R := b4.String()`, "bytes.Buffer.Write"},
	{[]string{"bytes"}, `R := bytes.ToUpper([]byte(X))`, "bytes.ToUpper"},
	{[]string{"bytes"}, `R := bytes.TrimSpace([]byte(X))`, "bytes.TrimSpace"},
	{[]string{"bytes"}, `R := bytes.Join([][]byte{[]byte("a"), []byte(X)}, []byte(","))`, "bytes.Join"},
	{[]string{"bytes"}, `R := bytes.Split([]byte(X), []byte(","))`, "bytes.Split"},
	{[]string{"bytes"}, `R := bytes.NewReader([]byte(X))`, "bytes.NewReader"},
	{[]string{"strconv"}, `R := strconv.Quote(X)`, "strconv.Quote"},
	{[]string{"strconv"}, `R, _ := strconv.Unquote("\"" + X + "\"")`, "strconv.Unquote"},
	{[]string{"strconv"}, `_, R := strconv.Atoi(X)`, "strconv.Atoi (error)"},
	{[]string{"strconv"}, `_, R := strconv.ParseFloat(X, 64)`, "strconv.ParseFloat (error)"},
	{[]string{"strconv"}, `R := strconv.AppendQuote(nil, X)`, "strconv.AppendQuote"},
	{[]string{"path"}, `R := path.Join("a", X)`, "path.Join"},
	{[]string{"path"}, `R := path.Base("a/" + X)`, "path.Base"},
	{[]string{"path"}, `R := path.Clean(X)`, "path.Clean"},
	{[]string{"path"}, `R := path.Dir(X + "/b")`, "path.Dir"},
	{[]string{"path/filepath"}, `R := filepath.Join("a", X)`, "filepath.Join"},
	{[]string{"path/filepath"}, `R := filepath.Base("a/" + X)`, "filepath.Base"},
	{[]string{"path/filepath"}, `R := filepath.Clean(X)`, "filepath.Clean"},
	{[]string{"net/url"}, `R := url.QueryEscape(X)`, "url.QueryEscape"},
	{[]string{"net/url"}, `R := url.PathEscape(X)`, "url.PathEscape"},
	{[]string{"net/url"}, `R, _ := url.Parse("http://h/" + X)`, "url.Parse"},
	{[]string{"net/url"}, `_, R := url.Parse("http://[" + X)`, "url.Parse (error)"},
	{[]string{"net/url"}, `u3, _ := url.Parse("http://h/p?q=" + X); R := u3.String()`, "url.Parse, URL.String"},
	{[]string{"net/url"}, `vs := url.Values{}; vs.Set("k", X); R := vs.Get("k")`, "url.Values.Set/Get"},
	{[]string{"net/url"}, `vs2 := url.Values{}; vs2.Add("k", X); R := vs2.Encode()`, "url.Values.Add/Encode"},
	{[]string{"encoding/json"}, `R, _ := json.Marshal(X)`, "json.Marshal"},
	{[]string{"encoding/json"}, `R, _ := json.Marshal(map[string]string{"k": X})`, "json.Marshal (map)"},
	{[]string{"encoding/json"}, `var R string; _ = json.Unmarshal([]byte("\"" + X + "\""), &R)`, "json.Unmarshal"},
	{[]string{"encoding/json", "strings"}, `var R string; _ = json.NewDecoder(strings.NewReader("\"" + X + "\"")).Decode(&R)`, "json.NewDecoder, Decoder.Decode"},
	{[]string{"encoding/json", "bytes"}, `var R bytes.Buffer; _ = json.NewEncoder(&R).Encode(X)`, "json.NewEncoder, Encoder.Encode"},
	{[]string{"encoding/base64"}, `e4 := base64.StdEncoding.EncodeToString([]byte(X)); R, _ := base64.StdEncoding.DecodeString(e4)`, "base64 EncodeToString/DecodeString"},
	{[]string{"encoding/hex"}, `e5 := hex.EncodeToString([]byte(X)); R, _ := hex.DecodeString(e5)`, "hex EncodeToString/DecodeString"},
	{[]string{"bufio", "strings"}, `R, _ := bufio.NewReader(strings.NewReader(X + "\n")).ReadString('\n')`, "bufio.NewReader, Reader.ReadString"},
	{[]string{"bufio", "strings"}, `sc := bufio.NewScanner(strings.NewReader(X)); sc.Scan(); R := sc.Text()`, "bufio.NewScanner, Scanner.Scan/Text"},
	{[]string{"bufio", "bytes"}, `var b6 bytes.Buffer; w6 := bufio.NewWriter(&b6); w6.WriteString(X); w6.Flush(); R := b6.String()`, "bufio.Writer.WriteString/Flush"},
	{[]string{"io", "strings", "bytes"}, `var b7 bytes.Buffer; io.Copy(&b7, strings.NewReader(X)); R := b7.String()`, "io.Copy"},
	{[]string{"io", "bytes"}, `var b8 bytes.Buffer; io.WriteString(&b8, X); R := b8.String()`, "io.WriteString"},
	{[]string{"sort"}, `R := []string{"b", X}; sort.Strings(R)`, "sort.Strings"},
	{[]string{"unicode/utf8"}, `R := utf8.AppendRune([]byte(X), 'x')`, "utf8.AppendRune"},
	{[]string{"regexp"}, `R := regexp.MustCompile("zz").ReplaceAllString(X, "y")`, "regexp.ReplaceAllString"},
	{[]string{"regexp"}, `R := regexp.MustCompile(".+").FindString(X)`, "regexp.FindString"},
	{[]string{"regexp"}, `R := regexp.QuoteMeta(X)`, "regexp.QuoteMeta"},
	{[]string{"text/template", "bytes"}, `var b9 bytes.Buffer; _ = template.Must(template.New("t").Parse("{{.}}")).Execute(&b9, X); R := b9.String()`, "text/template Execute"},
	{[]string{"os"}, `_ = os.Setenv("VERIF_C09", X); R := os.Getenv("VERIF_C09")`, "os.Setenv/Getenv"},
	{[]string{"os"}, `R := os.ExpandEnv(X)`, "os.ExpandEnv"},
	{[]string{"context"}, `type ck struct{}; cx := context.WithValue(context.Background(), ck{}, X); R := cx.Value(ck{})`, "context.WithValue/Value"},
	{[]string{"sync"}, `var sm sync.Map; sm.Store("k", X); R, _ := sm.Load("k")`, "sync.Map.Store/Load"},
	{[]string{"sync"}, `var R string; var once sync.Once; once.Do(func() { R = X })`, "sync.Once.Do"},
	{[]string{"container/list"}, `ll := list.New(); ll.PushBack(X); R := ll.Front().Value`, "container/list"},
	{[]string{"strings", "unicode"}, `R := strings.TrimFunc(X, unicode.IsSpace)`, "strings.TrimFunc"},
	{[]string{"strings"}, `R := strings.TrimLeft(X, " ")`, "strings.TrimLeft"},
	{[]string{"strings"}, `R := strings.TrimRight(X, " ")`, "strings.TrimRight"},
	{[]string{"strings"}, `R := strings.Title(X)`, "strings.Title"},
	{[]string{"strings"}, `R := strings.SplitAfter(X, ",")`, "strings.SplitAfter"},
	{[]string{"net/http"}, `h := http.Header{}; h.Set("K", X); R := h.Get("K")`, "http.Header.Set/Get"},
	{[]string{"net/http"}, `rq, _ := http.NewRequest("GET", "http://h/"+X, nil); R := rq.URL.String()`, "http.NewRequest"},
}

const c09Prelude = `package main

func source1(line int) string { return "src" }

func sink1(line int, x any) {}
`

const c09NativePrelude = `package main

import rt "vnative/rt"

func source1(line int) string { return rt.Marker(line) }

func sink1(line int, x any) { rt.Sink(line, x) }

// Run executes the program once.
func Run() { main() }
`

type c09Use struct {
	Template int `json:"template"`
	SrcLine  int `json:"src_line"`
	SinkLine int `json:"sink_line"`
}

// c09Program renders the chosen templates into one program; every template lives in its own block.
func c09Program(idx []int) (string, []c09Use) {
	imports := map[string]bool{}
	for _, i := range idx {
		for _, im := range c09Templates[i].Imports {
			imports[im] = true
		}
	}
	var ims []string
	for im := range imports {
		ims = append(ims, im)
	}
	sort.Strings(ims)
	var b strings.Builder
	b.WriteString("package main\n\nimport (\n")
	for _, im := range ims {
		fmt.Fprintf(&b, "\t%q\n", im)
	}
	b.WriteString(")\n\nfunc main() {\n")
	line := strings.Count(b.String(), "\n") + 1
	var uses []c09Use
	for _, i := range idx {
		t := c09Templates[i]
		b.WriteString("\t{\n")
		line++
		fmt.Fprintf(&b, "\t\tX := source1(%d)\n", line)
		src := line
		line++
		for _, st := range strings.Split(t.Code, "; ") {
			b.WriteString("\t\t" + st + "\n")
			line++
		}
		fmt.Fprintf(&b, "\t\tsink1(%d, R)\n", line)
		uses = append(uses, c09Use{i, src, line})
		line++
		b.WriteString("\t}\n")
		line++
	}
	b.WriteString("}\n")
	return b.String(), uses
}

func c09Analyse(dir string, main string) (*core.TaintOutcome, error) {
	_ = os.RemoveAll(dir)
	if err := core.WriteFiles(dir, map[string]string{"main.go": main, "prelude.go": c09Prelude}); err != nil {
		return nil, err
	}
	l, err := core.LoadDisk(dir, []string{"main.go", "prelude.go"}, true)
	if err != nil {
		return nil, err
	}
	cfg, err := config.Load(filepath.Join(dir, "config.yaml"), []byte(core.TaintOpts{SourceMethod: "^source1$", SinkMethod: "^sink1$"}.YAML()))
	if err != nil {
		return nil, err
	}
	out := core.RunTaintBudget(cfg, l, 10*time.Minute)
	if out == nil {
		return nil, fmt.Errorf("over budget")
	}
	return out, nil
}

func c09Judge(uses []c09Use, res *native.Result, out *core.TaintOutcome) []string {
	obs := map[[2]int]bool{}
	for _, r := range res.Runs {
		for _, f := range r.Flows {
			obs[[2]int{f[0], f[1]}] = true
		}
	}
	var missing []string
	for _, u := range uses {
		if !obs[[2]int{u.SrcLine, u.SinkLine}] {
			continue
		}
		if out.Result.State != nil && !c09AllInTable(out.Result.State.Program, u) {
			// some standard-library function called in this block has no predefined summary: not this property's subject
			continue
		}
		if !out.Pairs[core.Pair{SrcFile: "main.go", Src: u.SrcLine, SinkFile: "main.go", Sink: u.SinkLine}] {
			missing = append(missing, fmt.Sprintf("%s [%s]", c09Templates[u.Template].Entry, c09Templates[u.Template].Code))
		}
	}
	return missing
}

// c09AllInTable: every standard-library function called statically in the block of use u has a predefined summary
// (and at least one such call exists).
func c09AllInTable(prog *ssa.Program, u c09Use) bool {
	n := 0
	for f := range ssautil.AllFunctions(prog) {
		if f.Pkg == nil || f.Pkg.Pkg.Name() != "main" {
			if f.Parent() == nil || f.Parent().Pkg == nil || f.Parent().Pkg.Pkg.Name() != "main" {
				continue
			}
		}
		for _, b := range f.Blocks {
			for _, ins := range b.Instrs {
				ci, ok := ins.(ssa.CallInstruction)
				if !ok {
					continue
				}
				p := prog.Fset.Position(ins.Pos())
				if !strings.HasSuffix(p.Filename, "main.go") || p.Line <= u.SrcLine || p.Line >= u.SinkLine {
					continue
				}
				callee := ci.Common().StaticCallee()
				if callee == nil || callee.Pkg == nil || callee.Pkg.Pkg.Name() == "main" {
					continue
				}
				if _, ok := summaries.SummaryOfFunc(callee); !ok {
					return false
				}
				n++
			}
		}
	}
	return n > 0
}

// c09Audit resolves the table against the loaded program and counts entries whose positions do not exist.
func c09Audit(prog *ssa.Program) map[string]any {
	resolved, outOfRange, fewerRows := 0, 0, 0
	var bad []string
	for f := range ssautil.AllFunctions(prog) {
		s, ok := summaries.SummaryOfFunc(f)
		if !ok {
			continue
		}
		resolved++
		np := len(f.Params)
		nr := 0
		if sig, ok := f.Type().(*types.Signature); ok {
			nr = sig.Results().Len()
		}
		oor := false
		for i, row := range s.Args {
			if i >= np && len(row) > 0 {
				oor = true
			}
			for _, k := range row {
				if k >= np {
					oor = true
				}
			}
		}
		for i, row := range s.Rets {
			if i >= np && len(row) > 0 {
				oor = true
			}
			for _, k := range row {
				if k >= nr {
					oor = true
				}
			}
		}
		if oor {
			outOfRange++
			if len(bad) < 40 {
				bad = append(bad, f.String())
			}
		}
		if len(s.Args) < np || len(s.Rets) < np {
			fewerRows++
		}
	}
	sort.Strings(bad)
	return map[string]any{"table_entries_resolved_in_this_program": resolved, "entries_with_a_position_outside_the_signature": outOfRange,
		"entries_with_fewer_rows_than_parameters": fewerRows, "examples_out_of_range": bad}
}

func TestC09(t *testing.T) {
	rec := core.NewRecorder("C09", env, fmt.Sprintf("cases = programs of 10 one-call blocks drawn from %d templates over standard-library "+
		"functions with predefined summaries (strings, bytes, fmt, errors, strconv, path, filepath, net/url, encoding/json|base64|hex, bufio, io, "+
		"sort, regexp, text/template, os, context, sync, container/list, net/http): X := source(); R := <call>(X...); sink(R), executed natively "+
		"(marker found in R = a real flow) and analysed through analysis.LoadProgram with the table in force; oracle: an observed flow is "+
		"reported; plus a conformance audit of every table entry reachable in these programs (reported in the evidence); non-trivial = a "+
		"template whose marker was found in the output; distinct = template", len(c09Templates)))
	rec.Assumptions = []string{"entries that cannot be invoked from the templates only get the conformance audit",
		"a marker that the real function transforms (case change, escaping) is not recognised and creates no obligation"}
	defer rec.Flush()
	replayKnown(t, "C09")
	off := excluded()
	var allowed []int
	for i, tp := range c09Templates {
		if off["c09:"+tp.Entry] {
			rec.Count("excluded_by_known_finding", 1)
			continue
		}
		allowed = append(allowed, i)
	}
	nprog := env.Pick(8, 32)
	const per = 10
	type prog struct {
		main string
		uses []c09Use
		key  string
	}
	var progs []prog
	var units []native.Unit
	rapidSetup(nprog, 9)
	k := 0
	rapid.Check(t, func(rt *rapid.T) {
		// the first programs walk through all templates in order (every template is used in every run), later ones are drawn
		var idx []int
		base := (k*env.Shards + env.Shard) * per
		k++
		if base < len(allowed) {
			for j := 0; j < per && base+j < len(allowed); j++ {
				idx = append(idx, allowed[base+j])
			}
		} else {
			perm := rapid.Permutation(allowed).Draw(rt, "templates")
			idx = perm[:per]
		}
		main, uses := c09Program(idx)
		p := prog{main, uses, core.Hash(main)}
		progs = append(progs, p)
		units = append(units, native.Unit{Key: p.key, Vals: []uint64{0}, Files: map[string]string{"main.go": main, "prelude.go": c09NativePrelude}})
	})
	dir := filepath.Join(env.Out, fmt.Sprintf("native-C09-%d", env.Shard))
	res, err := native.RunBatch(dir, units, native.Options{Workers: 2, Timeout: 30 * time.Second})
	if err != nil {
		t.Fatalf("HARNESS native batch: %v", err)
	}
	for pi, p := range progs {
		r := res[p.key]
		if r == nil || r.BuildErr != "" {
			t.Fatalf("HARNESS: C09 program does not build natively: %+v\n%s", r, p.main)
		}
		out, err := c09Analyse(filepath.Join(env.Out, fmt.Sprintf("c09-%d", env.Shard), "p"), p.main)
		if err != nil {
			rec.Count("inconclusive_programs", 1)
			continue
		}
		if out.Panic != "" {
			m := env.Report(core.Violation{ID: "C09", Signature: "panic", What: "analysis panicked: " + oneLine(out.Panic), Files: c09Files(p.main, p.uses), Kind: "c09"})
			t.Fatalf("%s", m)
		}
		if out.Err != nil {
			rec.Count("analysis_failed_loudly", 1)
			continue
		}
		obs := map[[2]int]bool{}
		for _, run := range r.Runs {
			for _, f := range run.Flows {
				obs[[2]int{f[0], f[1]}] = true
			}
		}
		for _, u := range p.uses {
			tp := c09Templates[u.Template]
			rec.Case("template:"+tp.Entry+tp.Code, obs[[2]int{u.SrcLine, u.SinkLine}], []string{"pkg:" + tp.Imports[0]}, func() any {
				return map[string]any{"entry": tp.Entry, "code": tp.Code, "marker_found_in_output": obs[[2]int{u.SrcLine, u.SinkLine}]}
			})
		}
		if pi == 0 && out.Result.State != nil {
			rec.Note("conformance_audit", c09Audit(out.Result.State.Program))
		}
		if missing := c09Judge(p.uses, r, out); len(missing) > 0 {
			m := env.Report(core.Violation{ID: "C09", Signature: "lost-" + strings.Fields(missing[0])[0],
				What: "flows observed natively through summarised standard-library functions are not reported: " + strings.Join(missing, "; "), Files: c09Files(p.main, p.uses), Kind: "c09"})
			t.Fatalf("%s", m)
		}
	}
}

func c09Files(main string, uses []c09Use) map[string]string {
	b, _ := json.MarshalIndent(uses, "", " ")
	return map[string]string{"main.go": main, "prelude.go": c09Prelude, "uses.json": string(b)}
}

func init() {
	replayers["c09"] = func(dir string) string {
		main, err := os.ReadFile(filepath.Join(dir, "main.go"))
		if err != nil {
			return "HARNESS cannot read main.go"
		}
		var uses []c09Use
		b, _ := os.ReadFile(filepath.Join(dir, "uses.json"))
		if json.Unmarshal(b, &uses) != nil {
			return "HARNESS cannot parse uses.json"
		}
		key := core.Hash(string(main))
		sdir, _ := os.MkdirTemp(env.Out, "replay-native")
		res, err := native.RunBatch(sdir, []native.Unit{{Key: key, Vals: []uint64{0}, Files: map[string]string{"main.go": string(main), "prelude.go": c09NativePrelude}}}, native.Options{Workers: 1, Timeout: 30 * time.Second})
		if err != nil || res[key] == nil || res[key].BuildErr != "" {
			return fmt.Sprintf("HARNESS native replay failed: %v", err)
		}
		out, err := c09Analyse(filepath.Join(env.Out, "c09-replay", "p"), string(main))
		if err != nil || out.Err != nil {
			return ""
		}
		if out.Panic != "" {
			return "analysis panicked: " + oneLine(out.Panic)
		}
		if missing := c09Judge(uses, res[key], out); len(missing) > 0 {
			return "flows through summarised standard-library functions not reported: " + strings.Join(missing, "; ")
		}
		return ""
	}
}

var _ = gogen.Uniform

package checks

import (
	"fmt"
	"go/constant"
	"sort"
	"strings"
	"testing"

	"github.com/awslabs/ar-go-tools/analysis/config"
	"github.com/awslabs/ar-go-tools/analysis/dataflow"
	"github.com/awslabs/ar-go-tools/verifharness/core"
	"github.com/awslabs/ar-go-tools/verifharness/gogen"
	"github.com/awslabs/ar-go-tools/verifharness/native"
	"golang.org/x/tools/go/ssa"
	"golang.org/x/tools/go/ssa/ssautil"
	"pgregory.net/rapid"
)

// C11: the pointer analysis never misses an alias that occurs at run time. Probe statements (typed no-op functions
// in the analysed rendering) observe pointer-like values; natively they log the memory the value refers to. Two
// probes of the same kind whose memory overlapped in some execution must may-alias.

// probeArgs maps probe ids to the SSA values observed (argument 1 of the probe call), per function instance.
func probeArgs(prog *ssa.Program) map[int][]ssa.Value {
	m := map[int][]ssa.Value{}
	for f := range ssautil.AllFunctions(prog) {
		for _, b := range f.Blocks {
			for _, ins := range b.Instrs {
				c, ok := ins.(*ssa.Call)
				if !ok {
					continue
				}
				callee := c.Call.StaticCallee()
				if callee == nil || !strings.HasPrefix(callee.Name(), "probe") || len(c.Call.Args) != 2 {
					continue
				}
				if k, ok := c.Call.Args[0].(*ssa.Const); ok && k.Value != nil && k.Value.Kind() == constant.Int {
					if v, exact := constant.Int64Val(k.Value); exact {
						m[int(v)] = append(m[int(v)], c.Call.Args[1])
					}
				}
			}
		}
	}
	return m
}

type c11Stats struct{ pairs, crossFn, noQuery int }

func c11Judge(files map[string]string, res *native.Result) (string, c11Stats, error) {
	var st c11Stats
	aliases := map[[2]int]bool{}
	for _, r := range res.Runs {
		for _, a := range r.Aliases {
			aliases[a] = true
		}
	}
	if len(aliases) == 0 {
		return "", st, nil
	}
	l, err := core.LoadSource(files)
	if err != nil {
		return "", st, err
	}
	cfg := core.MustConfig(core.TaintOpts{}.YAML())
	var state *dataflow.AnalyzerState
	var pan string
	func() {
		defer func() {
			if r := recover(); r != nil {
				pan = fmt.Sprint(r)
			}
		}()
		state, err = dataflow.NewInitializedAnalyzerState(l.Prog, nil, config.NewLogGroup(cfg), cfg)
	}()
	if pan != "" {
		return "analyzer state construction panicked: " + pan, st, nil
	}
	if err != nil || state.PointerAnalysis == nil {
		return "", st, nil
	}
	args := probeArgs(l.Prog)
	var keys [][2]int
	for k := range aliases {
		keys = append(keys, k)
	}
	sort.Slice(keys, func(i, j int) bool {
		return keys[i][0] < keys[j][0] || (keys[i][0] == keys[j][0] && keys[i][1] < keys[j][1])
	})
	for _, k := range keys {
		as, bs := args[k[0]], args[k[1]]
		if len(as) == 0 || len(bs) == 0 {
			continue
		}
		st.pairs++
		ok, queried := false, false
		for _, a := range as {
			qa, oka := state.PointerAnalysis.Queries[a]
			for _, b := range bs {
				qb, okb := state.PointerAnalysis.Queries[b]
				if !oka || !okb {
					continue
				}
				queried = true
				if qa.MayAlias(qb) {
					ok = true
				}
				if pa, pb := parentOf2(a), parentOf2(b); pa != nil && pb != nil && pa != pb {
					st.crossFn++
				}
			}
		}
		if !queried {
			st.noQuery++
			continue
		}
		if !ok {
			return fmt.Sprintf("probes %d and %d observed the same object in a native execution, but the points-to sets of %s and %s do not intersect (MayAlias is false)",
				k[0], k[1], as[0].Name(), bs[0].Name()), st, nil
		}
	}
	return "", st, nil
}

func parentOf2(v ssa.Value) *ssa.Function {
	if i, ok := v.(ssa.Instruction); ok {
		return i.Parent()
	}
	if p, ok := v.(*ssa.Parameter); ok {
		return p.Parent()
	}
	if p, ok := v.(*ssa.FreeVar); ok {
		return p.Parent()
	}
	return nil
}

func TestC11(t *testing.T) {
	rec := core.NewRecorder("C11", env, "cases = pointer-profile programs (references moved through assignments, fields, slices and maps of "+
		"pointers, interfaces, closures, function values, returns, globals, append, sub-slicing) with probe statements on *S, *string, "+
		"[]string and map values, executed natively (the probe log retains the pointers, so equal addresses mean the same object); oracle: two "+
		"probes of the same kind whose memory overlapped in some execution have intersecting points-to sets (MayAlias); non-trivial = >= 1 "+
		"observed alias between probes in different functions; distinct = hash(program, valuations)")
	defer rec.Flush()
	replayKnown(t, "C11")
	off := excluded()
	nv := 6
	if env.Thorough() {
		nv = 20
	}
	tp := &twoPass{id: "C11", salt: 11, checks: env.Pick(700, 7000), rec: rec,
		gen: func(t *rapid.T) *flowCase { return genFlowCase(t, gogen.PointerProfile(off), nv) },
		judge: func(rt *rapid.T, c *flowCase, res *native.Result) {
			msg, st, err := c11Judge(c.files(), res)
			if err != nil {
				rt.Fatalf("HARNESS: %v", err)
			}
			rec.Case(c.Key, st.crossFn >= 1, c.Prog.FeatList(), func() any {
				return map[string]any{"program_from_first_function": core.Truncate(afterDecls(c.Prog.Main), 50), "observed_alias_pairs": st.pairs, "pairs_across_functions": st.crossFn}
			})
			rec.Count("alias_pairs_checked", st.pairs)
			rec.Count("alias_pairs_without_query", st.noQuery)
			if msg != "" {
				m := env.Report(core.Violation{ID: "C11", Signature: "missed-alias", What: msg, Files: dynReplayFiles(c), Kind: "c11"})
				rt.Fatalf("%s", m)
			}
		}, opt: native.Options{InProcess: true}}
	tp.run(t)
}

func init() {
	replayers["c11"] = func(dir string) string {
		return dynReplayRes(dir, func(files map[string]string, res *native.Result) string {
			msg, _, err := c11Judge(files, res)
			if err != nil {
				return "HARNESS: " + err.Error()
			}
			return msg
		})
	}
}

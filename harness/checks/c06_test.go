package checks

import (
	"fmt"
	"os"
	"path/filepath"
	"strings"
	"testing"

	"github.com/awslabs/ar-go-tools/verifharness/core"
	"github.com/awslabs/ar-go-tools/verifharness/gogen"
	"pgregory.net/rapid"
)

// C06: running the taint analysis repeatedly on the same program and configuration yields the same set of pairs
// (Go re-randomises map iteration on every run; the worker count and GOMAXPROCS perturb the schedule).

func c06Variants() []taintVariant {
	return []taintVariant{c01Variants[0], c01Variants[2], c01Variants[1]}
}

// c06Unstable analyses files `reps` times under the variant and returns a description if two runs differ.
func c06Unstable(worker *core.Worker, files map[string]string, v taintVariant, reps int) (string, int, bool) {
	var first []string
	npairs := 0
	for r := 0; r < reps; r++ {
		out, over, err := worker.Taint(files, v.Opts.YAML(), analysisBudget())
		if _, ok := err.(*core.ErrWorkerDied); ok {
			return "", 0, false
		}
		if err != nil || over || out.Panic != "" || out.Err != nil {
			// crashes and loud failures belong to C07; a run that sometimes fails and sometimes not is still recorded
			return "", 0, false
		}
		cur := out.PairList()
		if r == 0 {
			first = cur
			npairs = len(cur)
			continue
		}
		if strings.Join(cur, ",") != strings.Join(first, ",") {
			return fmt.Sprintf("run 1 and run %d of the same analysis (%s) report different flow sets: %v vs %v", r+1, v.Name, first, cur), npairs, true
		}
	}
	return "", npairs, true
}

func TestC06(t *testing.T) {
	rec := core.NewRecorder("C06", env, "cases = (generated flow program, configuration in {eager, on-demand, eager+field-sensitive}) analysed R times "+
		"(R=6 quick, 20 thorough) in fresh analyzer states; oracle: identical canonical pair sets; non-trivial = the program has >= 3 source call sites "+
		"and >= 2 reported pairs (something to reorder); distinct = hash(program, variant)")
	rec.Assumptions = []string{"map iteration order and goroutine scheduling are re-randomised by the Go runtime on every run; they are sampled, not enumerated"}
	defer rec.Flush()
	replayKnown(t, "C06")
	worker := core.NewWorker(env.Root)
	defer worker.Close()
	off := excluded()
	reps := 6
	if env.Thorough() {
		reps = 20
	}
	rapidSetup(env.Pick(400, 4000), 6)
	rapid.Check(t, func(rt *rapid.T) {
		prog := gogen.Generate(rt, gogen.FlowProfile(off))
		files := map[string]string{"main.go": prog.Main, "prelude.go": gogen.AnalysedPrelude}
		for _, v := range c06Variants() {
			if v.Opts.FieldSensitive && gogen.Uniform(rt, 4, "fs") != 0 {
				continue
			}
			if v.Opts.FieldSensitive && off["variant:fieldsens"] {
				rec.Count("excluded_by_known_finding", 1)
				continue
			}
			res, npairs, ok := c06Unstable(worker, files, v, reps)
			if !ok {
				rec.Count("inconclusive", 1)
				continue
			}
			rec.Case(core.Hash(prog.Main, v.Name), len(prog.Sources) >= 3 && npairs >= 2, append(prog.FeatList(), "variant:"+v.Name), func() any {
				return map[string]any{"program_from_first_function": core.Truncate(afterDecls(prog.Main), 40), "variant": v.Name, "pairs": npairs, "repetitions": reps}
			})
			if res != "" {
				f := map[string]string{"main.go": prog.Main, "prelude.go": gogen.AnalysedPrelude, "config.yaml": v.Opts.YAML(), "variant.txt": v.Name}
				msg := env.Report(core.Violation{ID: "C06", Signature: "nondeterministic-" + v.Name, What: res, Files: f, Kind: "c06"})
				rt.Fatalf("%s", msg)
			}
		}
	})
}

func init() {
	replayers["c06"] = func(dir string) string {
		files := map[string]string{}
		for _, n := range []string{"main.go", "prelude.go"} {
			b, err := os.ReadFile(filepath.Join(dir, n))
			if err != nil {
				return "HARNESS cannot read " + n
			}
			files[n] = string(b)
		}
		cfg, _ := os.ReadFile(filepath.Join(dir, "config.yaml"))
		worker := core.NewWorker(env.Root)
		defer worker.Close()
		var first string
		for r := 0; r < 30; r++ {
			out, over, err := worker.Taint(files, string(cfg), 2*analysisBudget())
			if err != nil || over || out.Panic != "" || out.Err != nil {
				return ""
			}
			cur := strings.Join(out.PairList(), ",")
			if r == 0 {
				first = cur
			} else if cur != first {
				return fmt.Sprintf("repeated runs report different flow sets: [%s] vs [%s]", first, cur)
			}
		}
		return ""
	}
}
